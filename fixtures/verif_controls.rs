//! Positive controls for the rxcheck rules (DESIGN §6). This file is NOT part of
//! rxRust: `./check` copies /repo's current tree to a scratch directory, adds this
//! file as the private module `verif_controls` and runs the same rules over the copy.
//! Every item here is deliberately wrong (or, where named Good*, deliberately right)
//! and each check requires its controls to be reported — a rule that silently stops
//! matching fails its check. Nothing here is ever executed.
#![allow(dead_code, unused_variables, unused_mut, unused_imports)]

use crate::prelude::*;
use crate::rc::{MutArc, MutRc, RcDeref, RcDerefMut};
use crate::scheduler::{NormalReturn, RepeatTask, Scheduler, TaskHandle};
use std::convert::Infallible;

// ---------------------------------------------------------------- C16.E1
pub struct ConstFinishedObserver<O>(O);
impl<Item, Err, O: Observer<Item, Err>> Observer<Item, Err>
  for ConstFinishedObserver<O>
{
  fn next(&mut self, value: Item) { self.0.next(value) }
  fn error(self, err: Err) { self.0.error(err) }
  fn complete(self) { self.0.complete() }
  fn is_finished(&self) -> bool { false }
}

/// C03.S5: reports finished although its downstream is alive (a hot source would skip it at its terminal)
pub struct AlwaysFinishedObserver<O>(O);
impl<Item, Err, O: Observer<Item, Err>> Observer<Item, Err>
  for AlwaysFinishedObserver<O>
{
  fn next(&mut self, value: Item) { self.0.next(value) }
  fn error(self, err: Err) { self.0.error(err) }
  fn complete(self) { self.0.complete() }
  fn is_finished(&self) -> bool { true }
}

/// C16.E1 `under`: hides the end of the stream behind an own condition (`down && own`)
pub struct AndFinishedObserver<O>(O, Vec<u8>);
impl<Item, Err, O: Observer<Item, Err>> Observer<Item, Err>
  for AndFinishedObserver<O>
{
  fn next(&mut self, value: Item) { self.0.next(value) }
  fn error(self, err: Err) { self.0.error(err) }
  fn complete(self) { self.0.complete() }
  fn is_finished(&self) -> bool { self.0.is_finished() && self.1.iter().all(|b| *b == 0) }
}

/// C16.E1 `extra` through a call: `down || own()`
pub struct OrFinishedObserver<O>(O, Vec<u8>);
impl<Item, Err, O: Observer<Item, Err>> Observer<Item, Err>
  for OrFinishedObserver<O>
{
  fn next(&mut self, value: Item) { self.0.next(value) }
  fn error(self, err: Err) { self.0.error(err) }
  fn complete(self) { self.0.complete() }
  fn is_finished(&self) -> bool { self.0.is_finished() || (!self.1.is_empty() && self.1.iter().all(|b| *b == 0)) }
}

/// C03.S14: vacates a shared slot for the duration of a call and refills it afterwards
pub fn ctl_flush_unlocked<T>(cell: &MutArc<Option<T>>, flush: impl FnOnce(&mut T)) {
  let taken = cell.rc_deref_mut().take();
  if let Some(mut inner) = taken {
    flush(&mut inner);
    *cell.rc_deref_mut() = Some(inner);
  }
}

/// answers `false` when its slot is empty
pub struct HalfFinishedObserver<O>(Option<O>);
impl<Item, Err, O: Observer<Item, Err>> Observer<Item, Err>
  for HalfFinishedObserver<O>
{
  fn next(&mut self, value: Item) {
    if let Some(o) = self.0.as_mut() {
      o.next(value)
    }
  }
  fn error(mut self, err: Err) {
    if let Some(o) = self.0.take() {
      o.error(err)
    }
  }
  fn complete(mut self) {
    if let Some(o) = self.0.take() {
      o.complete()
    }
  }
  fn is_finished(&self) -> bool {
    self.0.as_ref().map_or(false, |o| o.is_finished())
  }
}

pub struct GoodForwardObserver<O>(Option<O>);
impl<Item, Err, O: Observer<Item, Err>> Observer<Item, Err>
  for GoodForwardObserver<O>
{
  fn next(&mut self, value: Item) {
    if let Some(o) = self.0.as_mut() {
      o.next(value)
    }
  }
  fn error(mut self, err: Err) {
    if let Some(o) = self.0.take() {
      o.error(err)
    }
  }
  fn complete(mut self) {
    if let Some(o) = self.0.take() {
      o.complete()
    }
  }
  fn is_finished(&self) -> bool {
    match &self.0 {
      Some(o) => o.is_finished(),
      None => true,
    }
  }
}

// ---------------------------------------------------------------- C16.E2
pub struct EagerIter<I>(I);
impl<O, I> Observable<I::Item, Infallible, O> for EagerIter<I>
where
  I: IntoIterator,
  O: Observer<I::Item, Infallible>,
{
  type Unsub = ();
  fn actual_subscribe(self, mut observer: O) -> Self::Unsub {
    for v in self.0 {
      observer.next(v);
    }
    observer.complete();
  }
}
impl<I: IntoIterator> ObservableExt<I::Item, Infallible> for EagerIter<I> {}

fn eager_tick<O: Observer<usize, Infallible>>(observer: &mut O, seq: usize) -> bool {
  observer.next(seq);
  true
}
pub fn eager_interval<O, S>(s: S, observer: O) -> TaskHandle<NormalReturn<()>>
where
  O: Observer<usize, Infallible>,
  S: Scheduler<RepeatTask<O>>,
{
  s.schedule(RepeatTask::new(Duration::from_millis(1), eager_tick, observer), None)
}

// ---------------------------------------------------------------- C16.E4
pub struct CompleteInNext<O>(MutRc<Option<O>>);
impl<Item, Err, O: Observer<Item, Err> + Clone> Observer<Item, Err>
  for CompleteInNext<O>
{
  fn next(&mut self, value: Item) {
    // completes a *copy*: the slot stays occupied
    if let Some(o) = self.0.rc_deref().as_ref() {
      o.clone().complete()
    }
  }
  fn error(self, err: Err) { self.0.error(err) }
  fn complete(self) { self.0.complete() }
  fn is_finished(&self) -> bool { self.0.is_finished() }
}

// ---------------------------------------------------------------- C03.S1
#[derive(Clone)]
pub struct NeverButCompletes;
impl<O: Observer<(), Infallible>> Observable<(), Infallible, O> for NeverButCompletes {
  type Unsub = ();
  fn actual_subscribe(self, observer: O) -> Self::Unsub { observer.complete() }
}
impl ObservableExt<(), Infallible> for NeverButCompletes {}

// ---------------------------------------------------------------- C03.S2 / S3
/// emits what it gathered together with the error
pub struct FlushOnErrorObserver<O, Item> { observer: O, data: Vec<Item> }
impl<Item, Err, O: Observer<Vec<Item>, Err>> Observer<Item, Err>
  for FlushOnErrorObserver<O, Item>
{
  fn next(&mut self, value: Item) { self.data.push(value) }
  fn error(mut self, err: Err) {
    let d = std::mem::take(&mut self.data);
    self.observer.next(d);
    self.observer.error(err)
  }
  fn complete(mut self) {
    let d = std::mem::take(&mut self.data);
    self.observer.next(d);
    self.observer.complete()
  }
  fn is_finished(&self) -> bool { self.observer.is_finished() }
}

pub struct SwallowErrorObserver<O>(O);
impl<Item, Err, O: Observer<Item, Err>> Observer<Item, Err>
  for SwallowErrorObserver<O>
{
  fn next(&mut self, value: Item) { self.0.next(value) }
  fn error(self, _err: Err) {}
  fn complete(self) { self.0.complete() }
  fn is_finished(&self) -> bool { self.0.is_finished() }
}

pub struct NoCompleteObserver<O>(O, bool);
impl<Item, Err, O: Observer<Item, Err>> Observer<Item, Err>
  for NoCompleteObserver<O>
{
  fn next(&mut self, value: Item) { self.0.next(value) }
  fn error(self, err: Err) { self.0.error(err) }
  fn complete(self) {
    if self.1 {
      self.0.complete()
    }
  }
  fn is_finished(&self) -> bool { self.0.is_finished() }
}

// ---------------------------------------------------------------- C15
/// calls the callback without taking it (FnMut bound makes that type-check)
pub struct TwiceFinalizerObserver<O, F> { observer: O, func: MutRc<Option<F>> }
impl<Item, Err, O, F> Observer<Item, Err> for TwiceFinalizerObserver<O, F>
where
  O: Observer<Item, Err>,
  F: FnMut(),
{
  fn next(&mut self, value: Item) {
    if let Some(f) = self.func.rc_deref_mut().as_mut() {
      f()
    }
    self.observer.next(value);
  }
  fn error(self, err: Err) {
    self.observer.error(err);
    if let Some(mut func) = self.func.rc_deref_mut().take() {
      func()
    }
  }
  fn complete(self) {
    if let Some(f) = self.func.rc_deref_mut().as_mut() {
      f()
    }
    self.observer.complete();
  }
  fn is_finished(&self) -> bool { self.observer.is_finished() }
}

/// forgets the callback when unsubscribed
pub struct LazyFinalizerSubscription<U, C> { subscription: U, func: C }
impl<C, F, U> Subscription for LazyFinalizerSubscription<U, C>
where
  U: Subscription,
  C: RcDerefMut<Target = Option<F>>,
  F: FnOnce(),
{
  fn unsubscribe(self) { self.subscription.unsubscribe(); }
  fn is_closed(&self) -> bool { self.subscription.is_closed() }
}

// ---------------------------------------------------------------- C17
pub struct OneSidedPair<A, B> { a: A, b: B }
impl<A: Subscription, B: Subscription> Subscription for OneSidedPair<A, B> {
  fn unsubscribe(self) { self.a.unsubscribe(); self.b.unsubscribe(); }
  fn is_closed(&self) -> bool { self.a.is_closed() }
}
pub struct OrPair<A, B> { a: A, b: B }
impl<A: Subscription, B: Subscription> Subscription for OrPair<A, B> {
  fn unsubscribe(self) { self.a.unsubscribe(); self.b.unsubscribe(); }
  fn is_closed(&self) -> bool { self.a.is_closed() || self.b.is_closed() }
}
pub struct GoodPair<A, B> { a: A, b: B }
impl<A: Subscription, B: Subscription> Subscription for GoodPair<A, B> {
  fn unsubscribe(self) { self.a.unsubscribe(); self.b.unsubscribe(); }
  fn is_closed(&self) -> bool { self.a.is_closed() && self.b.is_closed() }
}
pub struct LeakyMulti(MutRc<Option<Vec<BoxSubscription<'static>>>>);
impl LeakyMulti {
  pub fn append(&mut self, v: BoxSubscription<'static>) {
    if let Some(vec) = self.0.rc_deref_mut().as_mut() {
      vec.push(v);
    }
  }
}
pub struct Reopenable<O>(MutRc<Option<O>>);
impl<O> Reopenable<O> {
  pub fn reopen(&self, o: O) { *self.0.rc_deref_mut() = Some(o); }
}

// ---------------------------------------------------------------- C14
use futures::channel::mpsc::UnboundedSender;
pub struct SilentErrorSink<T, E> { sender: UnboundedSender<Result<T, E>>, last: Option<E> }
impl<T, E> Observer<T, E> for SilentErrorSink<T, E> {
  fn next(&mut self, value: T) { let _ = self.sender.unbounded_send(Ok(value)); }
  fn error(mut self, err: E) { self.last = Some(err); }
  fn complete(self) { self.sender.close_channel(); }
  fn is_finished(&self) -> bool { self.sender.is_closed() }
}
use std::sync::atomic::{AtomicI8, Ordering};
pub struct Status2 { flag: AtomicI8, waker: futures::task::AtomicWaker }
pub struct CheckThenRegister(std::sync::Arc<Status2>);
impl std::future::Future for CheckThenRegister {
  type Output = ();
  fn poll(self: std::pin::Pin<&mut Self>, cx: &mut std::task::Context<'_>) -> std::task::Poll<()> {
    if self.0.flag.load(Ordering::Relaxed) != 0 {
      std::task::Poll::Ready(())
    } else {
      self.0.waker.register(cx.waker());
      std::task::Poll::Pending
    }
  }
}
pub struct RegisterThenCheck(std::sync::Arc<Status2>);
impl std::future::Future for RegisterThenCheck {
  type Output = ();
  fn poll(self: std::pin::Pin<&mut Self>, cx: &mut std::task::Context<'_>) -> std::task::Poll<()> {
    self.0.waker.register(cx.waker());
    if self.0.flag.load(Ordering::Relaxed) != 0 {
      std::task::Poll::Ready(())
    } else {
      std::task::Poll::Pending
    }
  }
}
pub struct WakeBeforeStore<O> { observer: O, status: std::sync::Arc<Status2> }
impl<Item, Err, O: Observer<Item, Err>> Observer<Item, Err> for WakeBeforeStore<O> {
  fn next(&mut self, value: Item) { self.observer.next(value) }
  fn error(self, err: Err) {
    self.observer.error(err);
    self.status.flag.store(-1, Ordering::Relaxed);
    self.status.waker.wake();
  }
  fn complete(self) {
    self.observer.complete();
    self.status.waker.wake();
    self.status.flag.store(1, Ordering::Relaxed);
  }
  fn is_finished(&self) -> bool { self.observer.is_finished() }
}

// ---------------------------------------------------------------- C04
/// a two-input operator whose inputs do not share a cell
pub struct TwoCells<A, B> { a: A, b: B }
impl<A, B, Item, Err, O> Observable<Item, Err, O> for TwoCells<A, B>
where
  O: Observer<Item, Err> + Clone,
  A: Observable<Item, Err, MutRc<Option<O>>>,
  B: Observable<Item, Err, MutRc<Option<O>>>,
{
  type Unsub = ZipSubscription<A::Unsub, B::Unsub>;
  fn actual_subscribe(self, observer: O) -> Self::Unsub {
    let o1 = MutRc::own(Some(observer.clone()));
    let o2 = MutRc::own(Some(observer));
    ZipSubscription::new(self.a.actual_subscribe(o1), self.b.actual_subscribe(o2))
  }
}
/// shared observer that terminates downstream without emptying its slot
pub struct PeekShared<O> { observer: Option<O>, completed_one: bool }
impl<Item, Err, O> Observer<Item, Err> for MutRc<PeekShared<O>>
where
  O: Observer<Item, Err> + Clone,
{
  fn next(&mut self, value: Item) {
    if let Some(o) = self.rc_deref_mut().observer.as_mut() {
      o.next(value)
    }
  }
  fn error(self, err: Err) {
    if let Some(o) = self.rc_deref_mut().observer.clone() {
      o.error(err)
    }
  }
  fn complete(self) {
    let mut inner = self.rc_deref_mut();
    inner.completed_one = true;
    if let Some(o) = inner.observer.take() {
      o.complete()
    }
  }
  fn is_finished(&self) -> bool {
    self.rc_deref().observer.as_ref().map_or(true, |o| o.is_finished())
  }
}
/// notifier tick that emits a copy of the gathered value
pub struct CloneTick<O, V> { observer: O, value: V }
impl<Item1: Clone, Item2, V, Err, O> Observer<Item2, Err> for CloneTick<O, V>
where
  O: Observer<Item1, Err>,
  V: RcDerefMut<Target = Option<Item1>>,
{
  fn next(&mut self, _: Item2) {
    if let Some(item) = self.value.rc_deref_mut().clone() {
      self.observer.next(item)
    }
  }
  fn error(self, err: Err) { self.observer.error(err) }
  fn complete(self) { self.observer.complete() }
  fn is_finished(&self) -> bool { self.observer.is_finished() }
}

// ---------------------------------------------------------------- C06
use smallvec::SmallVec;
pub struct BadSubject<Item> {
  observers: MutRc<Option<SmallVec<[Box<dyn Publisher<Item, ()>>; 1]>>>,
  chamber: MutRc<Option<SmallVec<[Box<dyn Publisher<Item, ()>>; 1]>>>,
}
impl<Item> BadSubject<Item> {
  fn load(&mut self) {
    if let Some(observers) = self.observers.rc_deref_mut().as_mut() {
      observers.append(self.chamber.rc_deref_mut().as_mut().unwrap());
    }
  }
}
impl<Item: Clone> Observer<Item, ()> for BadSubject<Item> {
  // load() is never called; one lock acquisition per subscriber
  fn next(&mut self, value: Item) {
    let n = self.observers.rc_deref().as_ref().map_or(0, |o| o.len());
    for i in 0..n {
      if let Some(observers) = self.observers.rc_deref_mut().as_mut() {
        observers[i].p_next(value.clone());
      }
    }
  }
  fn error(self, err: ()) {
    if let Some(observers) = self.observers.rc_deref_mut().take() {
      observers.into_iter().filter(|o| !o.p_is_closed()).for_each(|o| o.p_error(err));
    }
  }
  // completes in place: the list stays
  fn complete(self) {
    if let Some(observers) = self.observers.rc_deref_mut().as_mut() {
      observers.drain(..).for_each(|o| o.p_complete());
    }
  }
  fn is_finished(&self) -> bool { self.observers.rc_deref().is_none() }
}
impl<Item, O> Observable<Item, (), O> for BadSubject<Item>
where
  O: Observer<Item, ()> + 'static,
{
  type Unsub = Subscriber<O>;
  // pushes straight into the live list
  fn actual_subscribe(self, observer: O) -> Self::Unsub {
    if let Some(observers) = self.observers.rc_deref_mut().as_mut() {
      let subscriber = Subscriber::new(Some(observer));
      observers.push(Box::new(subscriber.clone()));
      subscriber
    } else {
      Subscriber::new(None)
    }
  }
}

// ---------------------------------------------------------------- C12
pub struct LateStoreBehavior<Item, S> { subject: S, value: MutRc<Item> }
impl<Item: Clone, Err, S: Observer<Item, Err>> Observer<Item, Err> for LateStoreBehavior<Item, S> {
  fn next(&mut self, value: Item) {
    Observer::next(&mut self.subject, value.clone());
    *self.value.rc_deref_mut() = value;
  }
  fn error(self, err: Err) { self.subject.error(err) }
  fn complete(self) { self.subject.complete() }
  fn is_finished(&self) -> bool { self.subject.is_finished() }
}
impl<Item: Clone, Err, O, S> Observable<Item, Err, O> for LateStoreBehavior<Item, S>
where
  S: Observable<Item, Err, O>,
  O: Observer<Item, Err>,
{
  type Unsub = S::Unsub;
  // joins without replaying the current value
  fn actual_subscribe(self, observer: O) -> Self::Unsub { self.subject.actual_subscribe(observer) }
}

// ---------------------------------------------------------------- C11
pub struct EagerConnectable<S, Subject> { source: S, subject: Subject }
impl<S, Subject> EagerConnectable<S, Subject> {
  /// subscribes the source while the connectable is being built
  pub fn new<Item, Err>(source: S) -> Subject
  where
    Subject: Default + Clone + Observer<Item, Err>,
    S: Observable<Item, Err, Subject>,
  {
    let subject = Subject::default();
    source.actual_subscribe(subject.clone());
    subject
  }
  pub fn connect<Item, Err>(self) -> S::Unsub
  where
    S: Observable<Item, Err, Subject>,
    Subject: Observer<Item, Err>,
  {
    self.source.actual_subscribe(self.subject)
  }
}
pub struct CountingRefCount<Subject, U> { subject: Subject, subscription: U }
impl<U: Subscription, Subject: Subscription + SubjectSize> Subscription for CountingRefCount<Subject, U> {
  // asks for the size before leaving
  fn unsubscribe(self) {
    let empty = self.subject.is_empty();
    self.subscription.unsubscribe();
    if empty {
      self.subject.unsubscribe()
    }
  }
  fn is_closed(&self) -> bool { self.subscription.is_closed() }
}

// ---------------------------------------------------------------- C05
pub struct LockedFlatten<O, Item> { observer_data: MutRc<Option<O>>, _hint: TypeHint<Item> }
impl<Item, Err, O, Inner> Observer<Inner, Err> for LockedFlatten<O, Item>
where
  O: Observer<Item, Err>,
  Inner: Observable<Item, Err, MutRc<Option<O>>>,
{
  fn next(&mut self, value: Inner) {
    let guard = self.observer_data.rc_deref_mut();
    if guard.is_some() {
      value.actual_subscribe(self.observer_data.clone());
    }
  }
  fn error(self, err: Err) { self.observer_data.error(err) }
  fn complete(self) { self.observer_data.complete() }
  fn is_finished(&self) -> bool { self.observer_data.is_finished() }
}

// ---------------------------------------------------------------- C19
pub struct RerunTask<Args> { func: fn(&Args) -> (), args: Option<Args> }
impl<Args: Unpin> std::future::Future for RerunTask<Args> {
  type Output = ();
  fn poll(self: std::pin::Pin<&mut Self>, _: &mut std::task::Context<'_>) -> std::task::Poll<()> {
    let this = self.get_mut();
    let args = this.args.as_ref().unwrap();
    std::task::Poll::Ready((this.func)(args))
  }
}
pub struct HandleInfo2 { keep_running: bool, value: Option<()> }
pub struct UnlockedRemote<Fut> { handle_info: MutArc<HandleInfo2>, future: Fut }
impl<Fut: std::future::Future<Output = ()> + Unpin> std::future::Future for UnlockedRemote<Fut> {
  type Output = ();
  fn poll(self: std::pin::Pin<&mut Self>, cx: &mut std::task::Context<'_>) -> std::task::Poll<()> {
    let this = self.get_mut();
    let keep = this.handle_info.rc_deref().keep_running;
    if !keep {
      return std::task::Poll::Ready(());
    }
    // the guard is gone: unsubscribe() can return while this poll runs
    match std::pin::Pin::new(&mut this.future).poll(cx) {
      std::task::Poll::Ready(v) => {
        this.handle_info.rc_deref_mut().value = Some(v);
        std::task::Poll::Ready(())
      }
      std::task::Poll::Pending => std::task::Poll::Pending,
    }
  }
}

// ---------------------------------------------------------------- C07
pub fn wait_until_backwards(at: Instant) -> Duration { Instant::now().duration_since(at) }
pub fn wait_until_forwards(at: Instant) -> Duration { at.saturating_duration_since(Instant::now()) }
pub struct NoDelayObserver<O, SD> { delay: Duration, scheduler: SD, observer: MutRc<Option<O>> }
fn ctl_emit<Item, Err>((mut observer, value): (impl Observer<Item, Err>, Item)) -> NormalReturn<()> {
  observer.next(value);
  NormalReturn::new(())
}
impl<Item, Err, O, SD> Observer<Item, Err> for NoDelayObserver<O, SD>
where
  O: Observer<Item, Err>,
  SD: Scheduler<crate::scheduler::OnceTask<(MutRc<Option<O>>, Item), NormalReturn<()>>>,
{
  fn next(&mut self, value: Item) {
    let task = crate::scheduler::OnceTask::new(ctl_emit, (self.observer.clone(), value));
    let _ = self.scheduler.schedule(task, None);
  }
  fn error(self, err: Err) { self.observer.error(err) }
  fn complete(self) { self.observer.complete() }
  fn is_finished(&self) -> bool { self.observer.is_finished() }
}

// ---------------------------------------------------------------- C08
pub struct NoRearmRepeat<Args> { fur: futures::future::BoxFuture<'static, ()>, interval: Duration, task: fn(&mut Args, usize) -> bool, args: Args, seq: usize }
impl<Args: Unpin> std::future::Future for NoRearmRepeat<Args> {
  type Output = ();
  fn poll(self: std::pin::Pin<&mut Self>, cx: &mut std::task::Context<'_>) -> std::task::Poll<()> {
    use futures::FutureExt;
    let this = self.get_mut();
    futures::ready!(this.fur.poll_unpin(cx));
    loop {
      // ticks as fast as it can after the first period; counts even when the task declines
      let go = (this.task)(&mut this.args, this.seq);
      this.seq += 2;
      if !go {
        return std::task::Poll::Ready(());
      }
    }
  }
}

// ---------------------------------------------------------------- C20
use std::collections::HashMap;
use std::hash::Hash;
pub struct BadGroupBy<O, D, K, S> { observer: O, discr: D, subjects: HashMap<K, S> }
impl<D, K, S, Item, Err, O> Observer<Item, Err> for BadGroupBy<O, D, K, S>
where
  O: Observer<S, Err>,
  D: FnMut(&Item) -> K,
  K: Hash + Eq + Clone,
  S: Clone + Default + Observer<Item, Err>,
  Item: Clone,
{
  // forwards first, announces afterwards, and forwards twice for a new key
  fn next(&mut self, value: Item) {
    let key = (self.discr)(&value);
    let fresh = !self.subjects.contains_key(&key);
    let subject = self.subjects.entry(key).or_insert_with(S::default);
    subject.next(value.clone());
    if fresh {
      self.observer.next(subject.clone());
      subject.next(value);
    }
  }
  fn error(self, err: Err) { self.observer.error(err) }
  // groups never complete
  fn complete(self) { self.observer.complete() }
  fn is_finished(&self) -> bool { self.observer.is_finished() }
}

// ---------------------------------------------------------------- C13
/// a "builder" that subscribes right away
pub fn eager_builder<S, O>(source: S, observer: O) -> S::Unsub
where
  S: Observable<i32, (), O>,
  O: Observer<i32, ()>,
{
  source.actual_subscribe(observer)
}
/// an operator that keeps its counter in the operator value, behind an Rc
#[derive(Clone)]
pub struct CountingOp<S> { source: S, seen: std::rc::Rc<std::cell::Cell<usize>> }
impl<S, Item, Err, O> Observable<Item, Err, O> for CountingOp<S>
where
  S: Observable<Item, Err, O>,
  O: Observer<Item, Err>,
{
  type Unsub = S::Unsub;
  fn actual_subscribe(self, observer: O) -> Self::Unsub {
    self.seen.set(self.seen.get() + 1);
    self.source.actual_subscribe(observer)
  }
}

// ---------------------------------------------------------------- C01.P4
pub fn ctl_unsafe(p: *const u8) -> u8 { unsafe { *p } }

// ---------------------------------------------------------------- C02
pub struct DropHandleObserver<O, SD> { observer: MutRc<Option<O>>, scheduler: SD }
impl<Item, Err, O, SD> Observer<Item, Err> for DropHandleObserver<O, SD>
where
  O: Observer<Item, Err>,
  SD: Scheduler<crate::scheduler::OnceTask<(MutRc<Option<O>>, Item), NormalReturn<()>>>,
{
  fn next(&mut self, value: Item) {
    let task = crate::scheduler::OnceTask::new(ctl_emit, (self.observer.clone(), value));
    let _handle = self.scheduler.schedule(task, None);
  }
  fn error(self, err: Err) { self.observer.error(err) }
  fn complete(self) { self.observer.complete() }
  fn is_finished(&self) -> bool { self.observer.is_finished() }
}
/// keeps the handle in a plain field that no returned subscription can reach
pub struct FieldHandleObserver<O, SD> { observer: MutRc<Option<O>>, scheduler: SD, handle: Option<TaskHandle<NormalReturn<()>>> }
impl<Item, Err, O, SD> Observer<Item, Err> for FieldHandleObserver<O, SD>
where
  O: Observer<Item, Err>,
  SD: Scheduler<crate::scheduler::OnceTask<(MutRc<Option<O>>, Item), NormalReturn<()>>>,
{
  fn next(&mut self, value: Item) {
    let task = crate::scheduler::OnceTask::new(ctl_emit, (self.observer.clone(), value));
    self.handle = Some(self.scheduler.schedule(task, None));
  }
  fn error(self, err: Err) { self.observer.error(err) }
  fn complete(self) { self.observer.complete() }
  fn is_finished(&self) -> bool { self.observer.is_finished() }
}
pub struct OneSidedUnsub<A, B> { a: A, b: B }
impl<A: Subscription, B: Subscription> Subscription for OneSidedUnsub<A, B> {
  fn unsubscribe(self) { self.a.unsubscribe(); }
  fn is_closed(&self) -> bool { self.a.is_closed() && self.b.is_closed() }
}

// ---------------------------------------------------------------- C09
pub struct DoubleEdge<O, Item> { observer: MutRc<Option<O>>, leading: bool, tailing: bool, trailing_value: MutRc<Option<Item>> }
impl<Item: Clone, Err, O: Observer<Item, Err>> Observer<Item, Err> for DoubleEdge<O, Item> {
  fn next(&mut self, value: Item) {
    if self.tailing {
      *self.trailing_value.rc_deref_mut() = Some(value.clone());
    }
    if self.leading {
      self.observer.next(value)
    }
  }
  fn error(self, err: Err) { self.observer.error(err) }
  fn complete(mut self) {
    if let Some(v) = self.trailing_value.rc_deref_mut().take() {
      self.observer.next(v);
    }
    self.observer.complete()
  }
  fn is_finished(&self) -> bool { self.observer.is_finished() }
}
pub fn clone_task<O, Item: Clone, Err>((mut observer, value): (MutRc<Option<O>>, MutRc<Option<Item>>)) -> NormalReturn<()>
where
  O: Observer<Item, Err>,
{
  if let Some(v) = value.rc_deref().clone() {
    observer.next(v);
  }
  NormalReturn::new(())
}

// ---------------------------------------------------------------- C18
pub struct CtlTwin<T>(MutRc<Vec<T>>);
pub struct CtlTwinThreads<T>(MutArc<Vec<T>>);
impl<T> CtlTwin<T> {
  pub fn push(&self, v: T) { self.0.rc_deref_mut().push(v) }
}
impl<T> CtlTwinThreads<T> {
  // the thread-safe twin silently drops the value when the list is long
  pub fn push(&self, v: T) {
    let mut g = self.0.rc_deref_mut();
    if g.len() < 8 {
      g.push(v)
    }
  }
}

// ---------------------------------------------------------------- C10
pub struct CtlAbBa { a: MutArc<i32>, b: MutArc<String> }
impl CtlAbBa {
  pub fn ab(&self) -> usize { let x = self.a.rc_deref_mut(); let y = self.b.rc_deref_mut(); *x as usize + y.len() }
  pub fn ba(&self) -> usize { let y = self.b.rc_deref_mut(); let x = self.a.rc_deref_mut(); *x as usize + y.len() }
}

// ---------------------------------------------------------------- FIFO discipline (C03.S6, C04.M5, C05.F2)
pub struct CtlStack<T> { stack: Vec<T> }
impl<T> CtlStack<T> {
  pub fn put(&mut self, v: T) { self.stack.push(v) }
  pub fn get(&mut self) -> Option<T> { self.stack.pop() }
}

// ---------------------------------------------------------------- C02.U6
pub struct EarlyReleaseSlot<O>(MutArc<Option<O>>);
impl<Item, Err, O: Observer<Item, Err>> Observer<Item, Err> for EarlyReleaseSlot<O> {
  fn next(&mut self, value: Item) {
    if let Some(o) = &mut *self.0.rc_deref_mut() {
      o.next(value)
    }
  }
  fn error(self, err: Err) {
    if let Some(o) = self.0.rc_deref_mut().take() {
      o.error(err)
    }
  }
  fn complete(self) {
    let o = self.0.rc_deref_mut().take();
    if let Some(o) = o {
      o.complete()
    }
  }
  fn is_finished(&self) -> bool { self.0.rc_deref().as_ref().map_or(true, |o| o.is_finished()) }
}

// ---------------------------------------------------------------- C17.K4 / C02.U3
pub struct LazyMulti(MutRc<Option<Vec<BoxSubscription<'static>>>>);
impl Subscription for LazyMulti {
  fn unsubscribe(self) {
    if self.is_closed() {
      return;
    }
    if let Some(v) = self.0.rc_deref_mut().take() {
      v.into_iter().for_each(|u| u.unsubscribe())
    }
  }
  fn is_closed(&self) -> bool {
    self.0.rc_deref().as_ref().map_or(true, |v| v.iter().all(|u| u.is_closed()))
  }
}

// ---------------------------------------------------------------- C14.R6
pub struct LossyErrorSink<T, E> { sender: UnboundedSender<Result<Option<T>, E>>, last: Option<Result<Option<T>, E>> }
impl<T, E> Observer<T, E> for LossyErrorSink<T, E> {
  fn next(&mut self, value: T) { self.last = Some(Ok(Some(value))); }
  // when an item was recorded before, the error is replaced by a placeholder
  fn error(mut self, err: E) {
    match self.last.as_mut() {
      Some(x) => { *x = Ok(None); }
      None => { self.last = Some(Err(err)); }
    }
    let out = self.last.take().unwrap();
    let _ = self.sender.unbounded_send(out);
    self.sender.close_channel();
  }
  fn complete(mut self) {
    let out = self.last.take().unwrap_or(Ok(None));
    let _ = self.sender.unbounded_send(out);
    self.sender.close_channel();
  }
  fn is_finished(&self) -> bool { self.sender.is_closed() }
}

// ---------------------------------------------------------------- C03.S7
pub struct RingLast<O, Item> { observer: O, count: usize, queue: std::collections::VecDeque<Item> }
impl<Item, Err, O: Observer<Item, Err>> Observer<Item, Err> for RingLast<O, Item> {
  // correct for count >= 1 only: with count == 0 nothing is ever evicted
  fn next(&mut self, value: Item) {
    if self.queue.len() == self.count {
      self.queue.pop_front();
    }
    self.queue.push_back(value);
  }
  fn error(self, err: Err) { self.observer.error(err) }
  fn complete(mut self) {
    for v in self.queue.drain(..) {
      self.observer.next(v);
    }
    self.observer.complete()
  }
  fn is_finished(&self) -> bool { self.observer.is_finished() }
}

// ---------------------------------------------------------------- C05.F3
pub struct SplitDecision<O> { state: MutArc<Option<(O, usize, Vec<usize>)>> }
impl<Err, O: Observer<usize, Err>> Observer<usize, Err> for SplitDecision<O> {
  fn next(&mut self, value: usize) {
    // decide under one lock acquisition ...
    let free = self.state.rc_deref().as_ref().map_or(false, |s| s.1 == 0);
    // ... act under another one
    if !free {
      if let Some(s) = self.state.rc_deref_mut().as_mut() {
        s.2.push(value);
      }
    }
  }
  fn error(self, err: Err) {
    if let Some(s) = self.state.rc_deref_mut().take() {
      s.0.error(err)
    }
  }
  fn complete(self) {
    if let Some(s) = self.state.rc_deref_mut().take() {
      s.0.complete()
    }
  }
  fn is_finished(&self) -> bool { self.state.rc_deref().as_ref().map_or(true, |s| s.0.is_finished()) }
}

// ---------------------------------------------------------------- C07.T5
pub struct ClosesSharedMulti<O> { observer: MutRc<Option<O>>, subscription: MultiSubscription<'static> }
impl<Item, Err, O: Observer<Item, Err>> Observer<Item, Err> for ClosesSharedMulti<O> {
  fn next(&mut self, value: Item) { self.observer.next(value) }
  fn error(self, err: Err) {
    self.subscription.clone().unsubscribe();
    self.observer.error(err)
  }
  fn complete(self) { self.observer.complete() }
  fn is_finished(&self) -> bool { self.observer.is_finished() }
}

// ---------------------------------------------------------------- C14.R7
pub struct EagerFinishedSink<T> { sender: UnboundedSender<T>, seen: usize }
impl<T> Observer<T, ()> for EagerFinishedSink<T> {
  fn next(&mut self, value: T) { self.seen += 1; let _ = self.sender.unbounded_send(value); }
  fn error(self, _err: ()) { self.sender.close_channel(); }
  fn complete(self) { self.sender.close_channel(); }
  // reports finished after two items although nobody dropped the channel
  fn is_finished(&self) -> bool { self.sender.is_closed() || self.seen >= 2 }
}

// ---------------------------------------------------------------- C03.S8
pub struct OffByOneTake<O> { observer: Option<O>, count: usize, hits: usize }
impl<Item, Err, O: Observer<Item, Err>> Observer<Item, Err> for OffByOneTake<O> {
  // lets count + 1 items through
  fn next(&mut self, value: Item) {
    if self.hits <= self.count {
      if let Some(observer) = self.observer.as_mut() {
        self.hits += 1;
        observer.next(value);
        if self.hits == self.count {
          self.observer.take().unwrap().complete()
        }
      }
    }
  }
  fn error(mut self, err: Err) {
    if let Some(o) = self.observer.take() {
      o.error(err)
    }
  }
  fn complete(mut self) {
    if let Some(o) = self.observer.take() {
      o.complete()
    }
  }
  fn is_finished(&self) -> bool { self.observer.as_ref().map_or(true, |o| o.is_finished()) }
}

// ---------------------------------------------------------------- C03.S9
pub struct ForgetfulDistinct<O, Item> { observer: O, last: Option<Item> }
impl<Item: PartialEq + Clone, Err, O: Observer<Item, Err>> Observer<Item, Err> for ForgetfulDistinct<O, Item> {
  fn next(&mut self, value: Item) {
    if self.last.take().map_or(true, |last| last != value) {
      self.last = Some(value.clone());
      self.observer.next(value);
    }
  }
  fn error(self, err: Err) { self.observer.error(err) }
  fn complete(self) { self.observer.complete() }
  fn is_finished(&self) -> bool { self.observer.is_finished() }
}

// ---------------------------------------------------------------- C16.E5
/// stream driver that looks at is_finished only when the stream yields another item: after the
/// downstream ended the stream from inside next(), a quiet stream parks the task for ever
pub struct LateCheckDriver<S, O> { stream: S, observer: Option<O> }
impl<S, O> std::future::Future for LateCheckDriver<S, O>
where
  S: futures::Stream + Unpin,
  O: Observer<S::Item, Infallible> + Unpin,
{
  type Output = NormalReturn<()>;
  fn poll(mut self: std::pin::Pin<&mut Self>, cx: &mut std::task::Context<'_>) -> std::task::Poll<Self::Output> {
    loop {
      let this = &mut *self;
      let next = futures::ready!(std::pin::Pin::new(&mut this.stream).poll_next(cx));
      match next {
        Some(value) => {
          let observer = this.observer.as_mut().expect("polled after done");
          if observer.is_finished() {
            this.observer.take();
            break std::task::Poll::Ready(NormalReturn::new(()));
          }
          observer.next(value);
        }
        None => {
          let observer = this.observer.take().expect("polled after done");
          observer.complete();
          break std::task::Poll::Ready(NormalReturn::new(()));
        }
      }
    }
  }
}

// ---------------------------------------------------------------- C10.L6
/// `front` being Some promises `back` is Some (promote unwraps it under the front guard), but close() empties back first
pub struct CtlPairedCells { front: MutArc<Option<Vec<u32>>>, back: MutArc<Option<Vec<u32>>> }
impl CtlPairedCells {
  pub fn promote(&self) {
    if let Some(f) = self.front.rc_deref_mut().as_mut() {
      f.append(self.back.rc_deref_mut().as_mut().unwrap());
    }
  }
  pub fn close(&self) {
    self.back.rc_deref_mut().take();
    self.front.rc_deref_mut().take();
  }
}

// ---------------------------------------------------------------- C18 builder twins
pub fn ctl_concat<S: ObservableExt<u8, Infallible>>(s: S) -> crate::ops::take::TakeOp<S> { s.take(1) }
pub fn ctl_concat_threads<S: ObservableExt<u8, Infallible>>(s: S) -> crate::ops::take::TakeOp<S> { s.take(usize::MAX) }

// ---------------------------------------------------------------- C13.Z1 (eager into_iter)
/// a builder that already starts the user's collection
pub fn eager_iter_builder<I: IntoIterator>(iter: I) -> EagerIter<I::IntoIter> {
  EagerIter(iter.into_iter())
}

// ---------------------------------------------------------------- C02.U7
/// hands back (handle cell, source): the re-fillable handle cell is emptied before the source is silenced
pub struct HandleFirstOp<S> { source: S }
impl<Item, Err, O, S> Observable<Item, Err, O> for HandleFirstOp<S>
where
  S: Observable<Item, Err, O>,
  O: Observer<Item, Err>,
{
  type Unsub = ZipSubscription<MutRc<Option<TaskHandle<NormalReturn<()>>>>, S::Unsub>;
  fn actual_subscribe(self, observer: O) -> Self::Unsub {
    let cell = MutRc::own(None);
    let u = self.source.actual_subscribe(observer);
    ZipSubscription::new(cell, u)
  }
}

// ---------------------------------------------------------------- C17.K6
/// a composite that lets go of a live part without unsubscribing it
pub struct ForgetfulMulti(MutRc<Option<Vec<Option<BoxSubscription<'static>>>>>);
impl ForgetfulMulti {
  pub fn release(&mut self, slot: usize) {
    if let Some(vec) = self.0.rc_deref_mut().as_mut() {
      if let Some(v) = vec.get_mut(slot) {
        v.take();
      }
    }
  }
  pub fn prune(&mut self) {
    if let Some(vec) = self.0.rc_deref_mut().as_mut() {
      vec.retain(|v| v.is_some());
    }
  }
  pub fn forget_last(&mut self) {
    if let Some(vec) = self.0.rc_deref_mut().as_mut() {
      vec.pop();
    }
  }
  pub fn keep_even(&mut self) {
    let mut i = 0;
    if let Some(vec) = self.0.rc_deref_mut().as_mut() {
      vec.retain(|v| { i += 1; if i % 2 == 0 { true } else { false } });
    }
  }
}

// ---------------------------------------------------------------- C14.R8
/// a status whose flag is also written by the waiter (2 = "somebody waits"), while closed() still means flag != 0
pub struct CtlStatus3 { flag: AtomicI8 }
impl CtlStatus3 {
  pub fn closed(&self) -> bool { self.flag.load(Ordering::Relaxed) != 0 }
  pub fn announce(&self) { let _ = self.flag.compare_exchange(0, 2, Ordering::AcqRel, Ordering::Acquire); }
}

// ---------------------------------------------------------------- C03.S10
/// "last" that keeps the first item
pub struct FirstKeeper<O, Item> { observer: O, last: Option<Item> }
impl<O, Item, Err> Observer<Item, Err> for FirstKeeper<O, Item>
where O: Observer<Item, Err> {
  fn next(&mut self, value: Item) { if self.last.is_none() { self.last = Some(value); } }
  fn error(self, err: Err) { self.observer.error(err) }
  fn complete(mut self) {
    if let Some(v) = self.last.take() { self.observer.next(v) }
    self.observer.complete();
  }
  fn is_finished(&self) -> bool { self.observer.is_finished() }
}
/// scan that emits the accumulator before it is updated
pub struct StaleScan<O, F, A> { observer: O, f: F, acc: A }
impl<O, F, A, Item, Err> Observer<Item, Err> for StaleScan<O, F, A>
where O: Observer<A, Err>, F: FnMut(A, Item) -> A, A: Clone {
  fn next(&mut self, value: Item) {
    self.observer.next(self.acc.clone());
    self.acc = (self.f)(self.acc.clone(), value);
  }
  fn error(self, err: Err) { self.observer.error(err) }
  fn complete(self) { self.observer.complete() }
  fn is_finished(&self) -> bool { self.observer.is_finished() }
}
/// pairwise that emits (current, previous)
pub struct SwappedPairs<O, Item> { observer: O, prev: Option<Item> }
impl<O, Item, Err> Observer<Item, Err> for SwappedPairs<O, Item>
where O: Observer<(Item, Item), Err>, Item: Clone {
  fn next(&mut self, value: Item) {
    if let Some(p) = self.prev.replace(value.clone()) {
      self.observer.next((value, p));
    }
  }
  fn error(self, err: Err) { self.observer.error(err) }
  fn complete(self) { self.observer.complete() }
  fn is_finished(&self) -> bool { self.observer.is_finished() }
}

// ---------------------------------------------------------------- C01.P2 (clone through a helper)
fn ctl_dup<T: Clone>(t: &T) -> T { t.clone() }
pub struct HelperCloner<O>(O);
impl<Item, Err, O: Observer<Item, Err> + Clone> Observer<Item, Err> for HelperCloner<O> {
  fn next(&mut self, value: Item) { let mut copy = ctl_dup(&self.0); copy.next(value) }
  fn error(self, err: Err) { self.0.error(err) }
  fn complete(self) { self.0.complete() }
  fn is_finished(&self) -> bool { self.0.is_finished() }
}

// ---------------------------------------------------------------- C03.S11
/// "second item" built with the wrong count
pub fn ctl_second<S: ObservableExt<u8, Infallible>>(s: S) -> crate::ops::take::TakeOp<crate::ops::skip::SkipOp<S>> { s.skip(2).take(1) }
/// "minimum" that keeps the greater value
pub fn ctl_smallest<S: ObservableExt<u8, Infallible>>(s: S) -> impl ObservableExt<u8, Infallible> {
  let pick = |m: Option<u8>, v: u8| match m { Some(m) if m > v => Some(m), _ => Some(v) };
  s.scan_initial(None, pick as fn(Option<u8>, u8) -> Option<u8>).last().map(|v| v.unwrap())
}

// ---------------------------------------------------------------- C04.M7
/// combine_latest that combines before it stores: the side that just emitted contributes its previous value
pub struct StaleCombine<O, A, B, F> { observer: Option<O>, a: Option<A>, b: Option<B>, f: F }
pub enum StaleItem<A, B> { ItemA(A), ItemB(B) }
impl<O, A, B, F, Out, Err> Observer<StaleItem<A, B>, Err> for MutRc<StaleCombine<O, A, B, F>>
where O: Observer<Out, Err>, F: FnMut(A, B) -> Out, A: Clone, B: Clone {
  fn next(&mut self, value: StaleItem<A, B>) {
    let mut inner = self.rc_deref_mut();
    let StaleCombine { observer, a, b, f } = &mut *inner;
    if let (Some(o), Some(x), Some(y)) = (observer.as_mut(), a.clone(), b.clone()) {
      o.next(f(x, y));
    }
    match value {
      StaleItem::ItemA(v) => *a = Some(v),
      StaleItem::ItemB(v) => *b = Some(v),
    }
  }
  fn error(self, err: Err) { if let Some(o) = self.rc_deref_mut().observer.take() { o.error(err) } }
  fn complete(self) { if let Some(o) = self.rc_deref_mut().observer.take() { o.complete() } }
  fn is_finished(&self) -> bool { self.rc_deref().observer.as_ref().map_or(true, |o| o.is_finished()) }
}

// ---------------------------------------------------------------- C09.R-e
/// debounce that leaves the previous timer running
pub struct NoCancelDebounce<O, SD, Item> {
  observer: MutArc<Option<O>>, scheduler: SD, delay: Duration,
  trailing_value: MutArc<Option<Item>>, task_handler: MutArc<Option<TaskHandle<NormalReturn<()>>>>,
}
fn ctl_debounce_task<O, Item>((mut observer, value): (MutArc<Option<O>>, MutArc<Option<Item>>)) -> NormalReturn<()>
where O: Observer<Item, Infallible> {
  if let Some(value) = value.rc_deref_mut().take() { observer.next(value); }
  NormalReturn::new(())
}
impl<Item, O, SD> Observer<Item, Infallible> for NoCancelDebounce<O, SD, Item>
where
  O: Observer<Item, Infallible>,
  SD: Scheduler<crate::scheduler::OnceTask<(MutArc<Option<O>>, MutArc<Option<Item>>), NormalReturn<()>>>,
{
  fn next(&mut self, value: Item) {
    *self.trailing_value.rc_deref_mut() = Some(value);
    let task = crate::scheduler::OnceTask::new(ctl_debounce_task, (self.observer.clone(), self.trailing_value.clone()));
    let handler = self.scheduler.schedule(task, Some(self.delay));
    *self.task_handler.rc_deref_mut() = Some(handler);
  }
  fn error(self, err: Infallible) { self.observer.error(err) }
  fn complete(self) { self.observer.complete() }
  fn is_finished(&self) -> bool { self.observer.is_finished() }
}

// ---------------------------------------------------------------- C11.P-f
/// a publisher that calls itself open as long as its slot is occupied, although its observer finished by itself
pub struct StickyPublisher<O>(MutRc<Option<O>>);
impl<Item, Err, O: Observer<Item, Err>> crate::subscriber::Publisher<Item, Err> for StickyPublisher<O> {
  fn p_next(&mut self, value: Item) { self.0.next(value) }
  fn p_error(self: Box<Self>, err: Err) { self.0.error(err) }
  fn p_complete(self: Box<Self>) { self.0.complete() }
  fn p_unsubscribe(self: Box<Self>) { self.0.rc_deref_mut().take(); }
  fn p_is_closed(&self) -> bool { self.0.rc_deref().is_none() }
}

// ---------------------------------------------------------------- C13.Z5
/// an operator whose hand-written Clone forgets part of its configuration
pub struct ResettingOp<S, C> { source: S, seed: C }
impl<S: Clone, C: Default> Clone for ResettingOp<S, C> {
  fn clone(&self) -> Self { ResettingOp { source: self.source.clone(), seed: C::default() } }
}

// ---------------------------------------------------------------- C19.H8
/// stores a new task handle over one that may still be pending (dropping a handle does not cancel its task)
pub struct OverwritingHandles<SD> { scheduler: SD, task_handler: MutArc<Option<TaskHandle<NormalReturn<()>>>>, busy: bool }
fn ctl_noop(_: ()) -> NormalReturn<()> { NormalReturn::new(()) }
impl<SD> Observer<(), Infallible> for OverwritingHandles<SD>
where SD: Scheduler<crate::scheduler::OnceTask<(), NormalReturn<()>>> {
  fn next(&mut self, _value: ()) {
    let idle = self.task_handler.rc_deref().as_ref().map_or(true, |h| h.is_closed());
    if idle || self.busy {
      let handler = self.scheduler.schedule(crate::scheduler::OnceTask::new(ctl_noop, ()), None);
      *self.task_handler.rc_deref_mut() = Some(handler);
    }
  }
  fn error(self, _err: Infallible) {}
  fn complete(self) {}
  fn is_finished(&self) -> bool { false }
}

// ---------------------------------------------------------------- C03.S12
/// swallows the completion when downstream reports finished
pub struct QuietOnFinished<O> { observer: O }
impl<Item, Err, O: Observer<Item, Err>> Observer<Item, Err> for QuietOnFinished<O> {
  fn next(&mut self, value: Item) { self.observer.next(value) }
  fn error(self, err: Err) { self.observer.error(err) }
  fn complete(self) { if self.observer.is_finished() { return; } self.observer.complete() }
  fn is_finished(&self) -> bool { self.observer.is_finished() }
}

// ---------------------------------------------------------------- C13.Z6
/// an operator that does not subscribe its source when the observer is already finished
pub struct LazySourceOp<S> { source: S }
impl<Item, Err, O, S> Observable<Item, Err, O> for LazySourceOp<S>
where S: Observable<Item, Err, O, Unsub = ()>, O: Observer<Item, Err> {
  type Unsub = ();
  fn actual_subscribe(self, observer: O) -> Self::Unsub {
    if observer.is_finished() { return; }
    self.source.actual_subscribe(observer)
  }
}

// ---------------------------------------------------------------- C03.S13
/// a two-phase flag that starts in its final state
pub struct PreCompleted<O> { observer: Option<O>, completed_one: bool }
impl<O> PreCompleted<O> { pub fn new(observer: O) -> Self { PreCompleted { observer: Some(observer), completed_one: true } } }
impl<Item, Err, O: Observer<Item, Err>> Observer<Item, Err> for PreCompleted<O> {
  fn next(&mut self, value: Item) { if let Some(o) = self.observer.as_mut() { o.next(value) } }
  fn error(mut self, err: Err) { if let Some(o) = self.observer.take() { o.error(err) } }
  fn complete(mut self) {
    if self.completed_one { if let Some(o) = self.observer.take() { o.complete() } } else { self.completed_one = true; }
  }
  fn is_finished(&self) -> bool { self.observer.as_ref().map_or(true, |o| o.is_finished()) }
}

// ---------------------------------------------------------------- C10.L8
/// test-and-set of a shared flag in two critical sections
pub struct SplitFlag<O> { observer: Option<O>, done_one: bool }
impl<Item, Err, O: Observer<Item, Err>> Observer<Item, Err> for MutArc<SplitFlag<O>> {
  fn next(&mut self, value: Item) { if let Some(o) = self.rc_deref_mut().observer.as_mut() { o.next(value) } }
  fn error(self, err: Err) { if let Some(o) = self.rc_deref_mut().observer.take() { o.error(err) } }
  fn complete(self) {
    if !self.rc_deref().done_one {
      self.rc_deref_mut().done_one = true;
    } else if let Some(o) = self.rc_deref_mut().observer.take() {
      o.complete()
    }
  }
  fn is_finished(&self) -> bool { self.rc_deref().observer.as_ref().map_or(true, |o| o.is_finished()) }
}
