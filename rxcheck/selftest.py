"""Mutation self-test of a check (thorough tier): the seeded changes kept under seeded/<ID>*/patch.diff, each of which breaks the
property while compiling and passing the test-suite, are applied to scratch copies of the current tree (never to /repo) and the
quick check must report them. The outcome is recorded in the evidence; it never turns into a VIOLATION of the unchanged tree."""
import glob
import os
import shutil
import subprocess
import tempfile

from . import extract

VERIF = extract.VERIF


def run(prop, limit=8):
    base = os.path.join(VERIF, '.scratch', 'selftest')
    os.makedirs(base, exist_ok=True)
    work = tempfile.mkdtemp(prefix=prop + '-', dir=base)
    out = {'mutants': 0, 'detected': 0, 'skipped': 0, 'missed': []}
    try:
        patches = sorted(glob.glob(os.path.join(VERIF, 'seeded', prop + '*', 'patch.diff')))[:limit]
        for p in patches:
            name = os.path.basename(os.path.dirname(p))
            d = os.path.join(work, name)
            os.makedirs(d)
            for f in ('Cargo.toml', 'Cargo.lock', 'README.md'):
                src = os.path.join(extract.REPO, f)
                if os.path.exists(src):
                    shutil.copyfile(src, os.path.join(d, f))
            shutil.copytree(os.path.join(extract.REPO, 'src'), os.path.join(d, 'src'))
            r = subprocess.run(['patch', '-p1', '-s', '-i', p], cwd=d, stdout=subprocess.PIPE, stderr=subprocess.STDOUT)
            if r.returncode != 0:
                out['skipped'] += 1       # the tree moved on and the patch no longer applies: nothing to learn
                continue
            env = dict(os.environ, RXCHECK_REPO=d, RXCHECK_NESTED='1', VERIF_TIER='quick')
            c = subprocess.run(['python3', '-m', 'rxcheck.run', prop, '--tier', 'quick'], cwd=VERIF, env=env,
                               stdout=subprocess.PIPE, stderr=subprocess.DEVNULL)
            out['mutants'] += 1
            if c.returncode == 1 and b'VIOLATION' in c.stdout:
                out['detected'] += 1
            else:
                out['missed'].append(name)
            shutil.rmtree(d, ignore_errors=True)
    finally:
        shutil.rmtree(work, ignore_errors=True)
    return out
