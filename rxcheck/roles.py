"""Frozen role tables and fail-closed floors (DESIGN §1.3). Every entry was confirmed by
reading the pinned tree; one line of reason per exception."""

# Observer impls that end a pipeline: they own no downstream observer.
LEAF_OBSERVERS = {
    'observable::subscribe_item::ObserverItem': 'user closure subscriber (subscribe(|v| ..)); never finishes on its own',
    'ops::future::ObservableFutureObserver': 'to_future() sink: finished when the receiving future dropped the channel',
    'ops::stream::ObservableStreamObserver': 'to_stream() sink: finished when the receiving stream dropped the channel',
    'subject::Subject': 'multicast: finished when its subscriber list was taken',
    'subject::SubjectThreads': 'multicast (thread-safe instance of the same macro)',
    'subject::MutRefItemSubject': 'multicast (mut-ref item instance)',
    'subject::MutRefErrSubject': 'multicast (mut-ref err instance)',
    'subject::MutRefItemErrSubject': 'multicast (mut-ref item+err instance)',
}

# producers whose emission loop runs over a finite, already materialised collection
FINITE_FLUSH = {
    '<ops::start_with::StartWithOp as Observable>::actual_subscribe': 'flushes the Vec given to start_with, then subscribes the source',
}

# next() bodies that send a terminal on a *clone* of a handle type parameter; sound only because the
# parameter is instantiated with MutRc|MutArc<Option<_>> handles only (obligation C01.P2')
TERMINAL_ON_CLONED_HANDLE = {
    '<ops::take_until::TakeUntilNotifierObserver as Observer>::next':
        'main_observer: O is the shared MutRc|MutArc<Option<_>> slot; its blanket impl take()s on complete',
}

# minimum number of rule instances found on the pinned tree (default features), counted by the
# driver and confirmed by reading; a check fails closed below its floor.
FLOORS = {
    'C16.E2.producers': 6,
    'C16.E4.sites': 4,
    'C17.K1.composites': 6,
    'C04.M0.ops': 14,
    'C02.U1.resources': 100,
    'C17.K3.bodies': 40,
}


def self_adt(cx, im):
    t = cx.facts.ty(cx.facts.strip_refs(im['self']))
    return t['p'] if t['k'] == 'adt' else None


def is_leaf_observer(cx, im):
    p = self_adt(cx, im)
    return p in LEAF_OBSERVERS


def finite_flush_exempt(cx, fn):
    return FINITE_FLUSH.get(stable_label(cx, fn))


def _canon(F):
    """private types that rule tables name, recognised by role so that renaming them does not disturb the tables:
    actual ADT path -> the name the tables use. Only consulted when the tabled name no longer exists."""
    c = getattr(F, '_canon_map', None)
    if c is not None:
        return c
    c = {}
    try:
        want = ['ops::merge_all::InnerObserver', 'ops::merge_all::InnerObserverThreads', 'ops::merge_all::OutsideObserver',
                'ops::merge_all::OutsideObserverThreads', 'ops::merge_all::ObserverData']
        if any(w not in F.adts for w in want):
            here = {p: a for p, a in F.adts.items() if str(a.get('span', '')).startswith('src/ops/merge_all.rs')}
            obs = set()
            for im in F.impls_of('observer::Observer'):
                t = F.ty(F.strip_refs(im['self']))
                if t['k'] == 'adt' and t['p'] in here:
                    obs.add(t['p'])
            found = {}
            for p, a in here.items():
                ftys = [F.tystr(f['t']) for v in a['variants'] for f in v['fields']]
                if p in obs:
                    if any('MultiSubscriptionThreads' in x for x in ftys):
                        found.setdefault('ops::merge_all::OutsideObserverThreads', []).append(p)
                    elif any('MultiSubscription' in x for x in ftys):
                        found.setdefault('ops::merge_all::OutsideObserver', []).append(p)
                    elif any('MutArc' in x for x in ftys):
                        found.setdefault('ops::merge_all::InnerObserverThreads', []).append(p)
                    elif any('MutRc' in x for x in ftys):
                        found.setdefault('ops::merge_all::InnerObserver', []).append(p)
                elif any('VecDeque' in x for x in ftys):
                    found.setdefault('ops::merge_all::ObserverData', []).append(p)
            for canon, ps in found.items():
                if canon not in F.adts and len(ps) == 1:
                    c[ps[0]] = canon
                    F.adts[canon] = F.adts[ps[0]]
        # scheduler.rs: the shared state of a task handle (HandleInfo) is what TaskHandle's cell holds; the wrapper future (Remote) is
        # the Future type of scheduler.rs that holds a cell of that state
        if 'scheduler::HandleInfo' not in F.adts and 'scheduler::TaskHandle' in F.adts:
            for v in F.adts['scheduler::TaskHandle']['variants']:
                for f in v['fields']:
                    t = F.ty(f['t'])
                    if t['k'] == 'adt' and t['p'] in ('rc::MutArc', 'rc::MutRc') and t['a']:
                        it = F.ty(t['a'][0])
                        if it['k'] == 'adt' and it['p'].startswith('scheduler::'):
                            c[it['p']] = 'scheduler::HandleInfo'
                            F.adts['scheduler::HandleInfo'] = F.adts[it['p']]
        # complete_status.rs: the waiter future (StatusFuture) is the Future type of that file
        if 'ops::complete_status::StatusFuture' not in F.adts:
            cands = []
            for im in F.impls_of('futures::Future'):
                t = F.ty(F.strip_refs(im['self']))
                if t['k'] == 'adt' and t['p'].startswith('ops::complete_status::'):
                    cands.append(t['p'])
            if len(set(cands)) == 1:
                c[cands[0]] = 'ops::complete_status::StatusFuture'
                F.adts['ops::complete_status::StatusFuture'] = F.adts.get(cands[0], {'variants': [], 'generics': [], 'span': ''})
        if 'scheduler::Remote' not in F.adts:
            hi = [k for k, v in c.items() if v == 'scheduler::HandleInfo'] + ['scheduler::HandleInfo']
            cands = []
            for im in F.impls_of('futures::Future'):
                t = F.ty(F.strip_refs(im['self']))
                if t['k'] == 'adt' and t['p'].startswith('scheduler::') and t['p'] in F.adts:
                    ftys = [F.tystr(f['t']) for v in F.adts[t['p']]['variants'] for f in v['fields']]
                    if any(any(h in x for h in hi) for x in ftys):
                        cands.append(t['p'])
            if len(set(cands)) == 1:
                c[cands[0]] = 'scheduler::Remote'
                F.adts['scheduler::Remote'] = F.adts[cands[0]]
    except Exception:
        c = {}
    F._canon_map = c
    return c


def type_tag(F, ti):
    """generic-free tag of a type: ADT paths only, MutRc/MutArc/Option/Box wrappers kept"""
    t = F.ty(F.strip_refs(ti))
    if t['k'] == 'adt':
        if t['p'] in ('rc::MutRc', 'rc::MutArc', 'std::option::Option', 'std::boxed::Box') and t['a']:
            return '%s<%s>' % (t['p'].split('::')[-1], type_tag(F, t['a'][0]))
        return _canon(F).get(t['p'], t['p'])
    if t['k'] == 'param':
        return '_'
    if t['k'] == 'dyn':
        return 'dyn ' + '+'.join(x['p'] for x in t['tr'][:1])
    return t['k']


def impl_tag(cx, im):
    return type_tag(cx.facts, im['self'])


def method_tag(cx, im, name):
    return '%s::%s' % (impl_tag(cx, im), name)


def stable_label(cx, fn):
    """generic-free label of a function: '<impl tag as Trait>::name' (robust to renamed type parameters)"""
    F = cx.facts
    root = F.fns.get(fn.get('root')) if fn.get('root') else fn
    im = F.impl_of_fn(root) if root else None
    name = (root or fn).get('name') or (root or fn)['key'].split('::')[-1]
    if im is None:
        return (root or fn)['path']
    tr = (im.get('trait') or '').split('::')[-1]
    return '<%s%s>::%s' % (impl_tag(cx, im), (' as ' + tr) if tr else '', name)


# ----------------------------------------------------------------------
# field roles inferred from types (so that renaming a field does not disturb a rule)
def adt_fields(cx, adt_path):
    a = cx.facts.adts.get(adt_path)
    if a is None:
        return []
    return [(f['n'], f['t']) for v in a['variants'] for f in v['fields']]


def field_where(cx, adt_path, pred, what, unique=True):
    """name of the field of `adt_path` whose type satisfies pred(type dict, type id); Incomplete when not (uniquely) found"""
    from .core import Incomplete
    F = cx.facts
    hits = [n for n, t in adt_fields(cx, adt_path) if pred(F.ty(t), t)]
    if not hits or (unique and len(hits) != 1):
        raise Incomplete('cannot identify the %s field of %s by its type (candidates: %s)' % (what, adt_path, hits))
    return hits[0] if unique else hits


def is_cell_of(F, t, inner_pred):
    """MutRc|MutArc<X> (or an AssociatedRefPtr::Rc<X> alias) with inner_pred(X type dict)"""
    if t['k'] == 'adt' and t['p'] in ('rc::MutRc', 'rc::MutArc') and t['a']:
        return inner_pred(F.ty(t['a'][0]))
    return False


def is_option_of(F, t, inner_pred=lambda x: True):
    return t['k'] == 'adt' and t['p'] == 'std::option::Option' and t['a'] and inner_pred(F.ty(t['a'][0]))
