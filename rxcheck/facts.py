"""Loading and indexing of the fact files written by rxlint (DESIGN §1.1)."""
import json


class Facts:
    def __init__(self, path):
        with open(path) as f:
            d = json.load(f)
        self.raw = d
        self.crate = d['crate']
        self.types = d['types']
        self.fns = {f['key']: f for f in d['fns']}
        self.adts = {a['path']: a for a in d['adts']}
        self.adts_by_key = {a['key']: a for a in d['adts']}
        self.traits = {t['path']: t for t in d['traits']}
        self.impls = {i['key']: i for i in d['impls']}
        self.unsafe_blocks = d['unsafe_blocks']
        # closures by parent
        self.children = {}
        for f in d['fns']:
            p = f.get('parent')
            if p:
                self.children.setdefault(p, []).append(f['key'])
        self.file_of = {}
        for f in d['fns']:
            f['file'] = f['span'].rsplit(':', 2)[0]
            f['line'] = int(f['span'].rsplit(':', 2)[1])
        for i in d['impls']:
            i['file'] = i['span'].rsplit(':', 2)[0]
            i['line'] = int(i['span'].rsplit(':', 2)[1])
            i['self_s'] = self.tystr(i['self'])
        for a in d['adts']:
            a['file'] = a['span'].rsplit(':', 2)[0]

    # ---- types -------------------------------------------------------
    def ty(self, i):
        return self.types[i]

    def tystr(self, i):
        return self.types[i]['s']

    def strip_refs(self, i):
        t = self.types[i]
        while t['k'] in ('ref', 'ptr'):
            i = t['t']
            t = self.types[i]
        return i

    def adt_path(self, i):
        """path of the ADT behind refs, or None"""
        t = self.types[self.strip_refs(i)]
        return t['p'] if t['k'] == 'adt' else None

    def mentions(self, i, pred, through_params=False, _seen=None):
        """does type i (transitively) contain a type node satisfying pred?"""
        if _seen is None:
            _seen = set()
        if i in _seen:
            return False
        _seen.add(i)
        t = self.types[i]
        if pred(t):
            return True
        for k in ('a', 'up', 'io'):
            for j in t.get(k, []):
                if self.mentions(j, pred, through_params, _seen):
                    return True
        if 't' in t and isinstance(t['t'], int):
            if self.mentions(t['t'], pred, through_params, _seen):
                return True
        for tr in t.get('tr', []):
            for j in tr.get('a', []):
                if self.mentions(j, pred, through_params, _seen):
                    return True
        return False

    # ---- impls -------------------------------------------------------
    def impls_of(self, trait):
        return [i for i in self.impls.values() if i.get('trait') == trait]

    def impl_fn(self, impl, name):
        for f in impl['fns']:
            if f['n'] == name:
                return self.fns.get(f['key'])
        return None

    def impl_of_fn(self, fn):
        k = fn.get('impl')
        if not k and fn.get('root'):
            root = self.fns.get(fn['root'])
            if root:
                k = root.get('impl')
        return self.impls.get(k) if k else None

    def fn_label(self, fn):
        """stable human label: '<Self as Trait>::method' without line numbers"""
        im = self.impl_of_fn(fn)
        tail = fn['key'].split('::')
        name = fn.get('name') or tail[-1]
        if fn['kind'] in ('closure', 'coroutine'):
            root = self.fns.get(fn.get('root'))
            base = self.fn_label(root) if root else fn.get('root', '?')
            suffix = fn['key'][len(fn.get('root', '')):]
            return base + suffix
        if im:
            tr = im.get('trait')
            if tr:
                return '<%s as %s>::%s' % (im['self_s'], tr.split('::')[-1], name)
            return '<%s>::%s' % (im['self_s'], name)
        return fn['path']

    def expn_root(self, item):
        """outermost macro_rules expansion (name, call-site) of an item, or None"""
        ch = [e for e in item.get('expn', []) if not e['m'].startswith('desugar')]
        if not ch:
            return None
        e = ch[-1]
        return (e['m'], e['at'])

    def macro_def(self, item):
        ch = [e for e in item.get('expn', []) if not e['m'].startswith('desugar')]
        if not ch:
            return None
        e = ch[-1]
        return (e['m'], e['def'])
