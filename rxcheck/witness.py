"""Compile-fail witnesses (DESIGN §1.5): doc-tests of /verif/witness, type-checked against /repo's
current tree with `cargo +nightly test --doc`. Nothing is executed (compile_fail / no_run only)."""
import fcntl
import os
import re
import shutil
import subprocess
from .core import Finding
from . import extract

WITNESSES = {
    'w1': ['W1UseAfterComplete', 'W1Twin', 'W1TwoTerminals', 'W1bTwin'],
    'w2': ['W2FnOnceFinalizer', 'W2CallTwice'],
    'w3': ['W3NonSendObserver', 'W3Twin', 'W3LocalSubjectNotSend', 'W3bTwin'],
    'w4': ['W4TaskHandleNotClone', 'W4Twin'],
}
_cache = {}


def _run_all():
    if 'res' in _cache:
        return _cache['res']
    wdir = os.path.join(extract.VERIF, 'witness')
    os.makedirs(extract.SCRATCH, exist_ok=True)
    lock = open(os.path.join(extract.SCRATCH, 'lock.witness'), 'w')
    fcntl.flock(lock, fcntl.LOCK_EX)
    try:
        shutil.copyfile(os.path.join(extract.REPO, 'Cargo.lock'), os.path.join(wdir, 'Cargo.lock'))
        env = dict(os.environ, CARGO_TARGET_DIR=os.path.join(extract.SCRATCH, 'target-witness'), CARGO_NET_OFFLINE='true')
        env.pop('RUSTC_WRAPPER', None)
        env.pop('RUSTC_WORKSPACE_WRAPPER', None)
        r = subprocess.run(['cargo', '+nightly', 'test', '--doc', '--offline'], cwd=wdir, env=env, stdout=subprocess.PIPE, stderr=subprocess.STDOUT, text=True)
    finally:
        fcntl.flock(lock, fcntl.LOCK_UN)
        lock.close()
    res = {}
    for m in re.finditer(r'^test src/lib\.rs - (\w+) \(line \d+\)(?: - ([\w ]+))? \.\.\. (\w+)', r.stdout, re.M):
        res[m.group(1)] = (m.group(3) == 'ok', m.group(2) or 'compile')
    _cache['res'] = (res, r.returncode, r.stdout[-3000:])
    return _cache['res']


def run_witnesses(prop, names):
    res, code, tail = _run_all()
    out = []
    for w in names:
        for t in WITNESSES[w]:
            if t not in res:
                out.append(Finding(prop, 'W' + w[1:], 'witness ' + t, False, 'witness doc-test did not run (cargo exit %s): %s' % (code, tail[-400:]), 'witness/src/lib.rs'))
            else:
                ok, kind = res[t]
                out.append(Finding(prop, 'W' + w[1:], 'witness ' + t, ok,
                                   ('%s as required' % ('fails to compile with the stated error code' if 'fail' in kind else 'compiles')) if ok else
                                   ('the type-level guarantee no longer holds: this program %s' % ('now compiles' if 'fail' in kind else 'no longer compiles')), 'witness/src/lib.rs'))
    return out, {'witness_doctests': len(out), 'witness_cmd': 'cargo +nightly test --doc --offline (in /verif/witness, against /repo)'}
