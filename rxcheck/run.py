"""./check <property> [--tier quick|thorough] [--replay file]   (DESIGN §7)"""
import importlib
import json
import os
import sys
import time
import traceback

from . import extract
from .facts import Facts
from .core import Cx, Finding, Incomplete

VERIF = extract.VERIF
PROPS = ['C%02d' % i for i in range(1, 21)]
CONTROL_FILE = 'src/verif_controls.rs'


def load_known():
    known, fixed = {}, []
    p = os.path.join(VERIF, 'known_findings.txt')
    if not os.path.exists(p):
        return known, fixed
    for line in open(p):
        line = line.strip()
        if not line or line.startswith('#'):
            continue
        head, _, desc = line.partition(' :: ')
        parts = head.split()
        if parts[0] == 'known:':
            prop = [x for x in parts if x.startswith('property=')][0].split('=', 1)[1]
            key = head.split(' key=', 1)[1]
            known[(prop, key)] = desc
        elif parts[0] == 'fixed:':
            fixed.append(line)
    return known, fixed


def main(argv):
    t0 = time.time()
    args = [a for a in argv if not a.startswith('--')]
    if not args:
        print('usage: check <C01..C20> [--tier quick|thorough] [--replay file]')
        return 2
    prop = args[0]
    tier = os.environ.get('VERIF_TIER', 'quick')
    replay = None
    i = 0
    while i < len(argv):
        if argv[i] == '--tier':
            tier = argv[i + 1]
            i += 1
        elif argv[i].startswith('--tier='):
            tier = argv[i].split('=', 1)[1]
        elif argv[i] == '--replay':
            replay = argv[i + 1]
            i += 1
        i += 1
    if tier not in ('quick', 'thorough'):
        tier = 'quick'
    seed = int(os.environ.get('VERIF_SEED', '0') or 0)
    mod = importlib.import_module('rxcheck.props.' + prop.lower())
    os.makedirs(os.path.join(VERIF, 'evidence'), exist_ok=True)
    os.makedirs(os.path.join(VERIF, 'reports'), exist_ok=True)
    evid_path = os.path.join(VERIF, 'evidence', prop + '.json')
    broken = []        # machinery failures (fail closed, not a property violation)
    findings = []
    configs = ['default'] if tier == 'quick' else ['default', 'all', 'notimer']
    stats = {'configs': [], 'bodies': 0, 'impls': {}, 'graphs': 0}
    for cfg in configs:
        try:
            fp = extract.facts_path(cfg)
            facts = Facts(fp)
            cx = Cx(facts, cfg)
            cx.control = False
            fs = mod.check(cx)
            for f in fs:
                f.config = cfg
            findings.extend(fs)
            stats['configs'].append(cfg)
            stats['bodies'] = max(stats['bodies'], len(facts.fns))
            for tr in ('observer::Observer', 'observable::Observable', 'subscription::Subscription', 'futures::Future',
                       'futures::Stream', 'scheduler::Scheduler'):
                stats['impls'][tr] = max(stats['impls'].get(tr, 0), len(facts.impls_of(tr)))
            stats['graphs'] += len(cx._graphs)
        except Incomplete as e:
            broken.append('analysis incomplete (%s): %s' % (cfg, e))
        except Exception as e:
            broken.append('check machinery failed (%s): %s\n%s' % (cfg, e, traceback.format_exc()))
    # positive controls: the same rules over a scratch copy of /repo + fixtures/verif_controls.rs
    ctl_expected = list(getattr(mod, 'CONTROLS', []))
    ctl_detected, ctl_missing, ctl_note = [], [], ''
    if ctl_expected:
        try:
            cp = extract.control_facts_path()
            if cp is None:
                # the fixture implements traits of the crate: a tree that changed those traits (a new required method, a renamed
                # type) no longer accepts it. That says nothing about the property; the rules still ran on the real tree above.
                ctl_note = 'control module does not compile against the current /repo tree; positive controls were not evaluated in this run'
                if os.environ.get('RXCHECK_STRICT_CONTROLS'):
                    broken.append(ctl_note + ' (see .scratch/facts/control-*/FAILED)')
                else:
                    print('NOTE property=%s: %s' % (prop, ctl_note))
            else:
                cfacts = Facts(cp)
                ccx = Cx(cfacts, 'control')
                ccx.control = True
                cfs = [f for f in mod.check(ccx) if f.loc.startswith(CONTROL_FILE) or CONTROL_FILE in f.loc or 'verif_controls' in f.key]
                bad = {f.full_key() for f in cfs if not f.ok}
                for k in ctl_expected:
                    (ctl_detected if k in bad else ctl_missing).append(k)
                extra_ok = getattr(mod, 'CONTROLS_OK', [])
                good = {f.full_key() for f in cfs if f.ok}
                for k in extra_ok:
                    if k not in good:
                        ctl_missing.append('(must pass) ' + k)
                if ctl_missing:
                    broken.append('positive control(s) not detected: %s' % ctl_missing)
        except Exception as e:
            broken.append('control run failed: %s\n%s' % (e, traceback.format_exc()))
    # thorough extras (witness doc-tests, mutation corpus)
    extra = {}
    if tier == 'thorough' and hasattr(mod, 'thorough'):
        try:
            ex_findings, extra = mod.thorough()
            findings.extend(ex_findings)
        except Exception as e:
            broken.append('thorough stage failed: %s\n%s' % (e, traceback.format_exc()))
    if tier == 'thorough' and not os.environ.get('RXCHECK_NESTED'):
        try:
            from . import selftest
            extra['mutation_selftest'] = selftest.run(prop)
        except Exception as e:
            extra['mutation_selftest'] = {'error': str(e)}
    known, fixed = load_known()
    # de-duplicate findings over configs (same key, same verdict)
    uniq = {}
    for f in findings:
        k = (f.full_key(), f.ok)
        if k not in uniq:
            uniq[k] = f
        else:
            uniq[k].config += ',' + f.config
    findings = list(uniq.values())
    # a missing table entry / a count below its floor is a failure of the machinery to match the code
    # (e.g. after a rename), not evidence that the property is violated: fail closed as CHECK-BROKEN
    mach = [f for f in findings if not f.ok and (f.key.startswith(('floor', 'table:')) or f.key == 'floor')]
    for f in mach:
        broken.append('rule %s could not be matched against the code: %s' % (f.full_key(), f.msg))
    findings = [f for f in findings if f not in mach]
    viol = [f for f in findings if not f.ok]
    known_hits = [f for f in viol if (prop, f.full_key()) in known]
    new_viol = [f for f in viol if (prop, f.full_key()) not in known]
    out = []
    for f in known_hits:
        out.append('KNOWN-FINDING: property=%s %s — %s [%s]' % (prop, f.full_key(), known[(prop, f.full_key())], f.loc))
    nrep = 0
    for f in new_viol:
        nrep += 1
        rp = os.path.join(VERIF, 'reports', '%s.%d.json' % (prop, nrep))
        if not os.environ.get('RXCHECK_NESTED'):
            with open(rp, 'w') as fh:
                json.dump(f.to_json(), fh, indent=1)
        out.append('VIOLATION property=%s replay=%s' % (prop, rp))
        out.append('  rule %s: %s' % (f.full_key(), f.msg))
        out.append('  at %s (config %s)' % (f.loc, f.config))
        for w in f.witness[:30]:
            out.append('    | ' + w)
    for b in broken:
        out.append('CHECK-BROKEN property=%s: %s' % (prop, b))
    obligations = len(findings)
    discharged = len([f for f in findings if f.ok])
    level = getattr(mod, 'LEVEL', 'other')
    samples = []
    for f in findings[:3] + [f for f in findings if not f.ok][:3]:
        samples.append({'rule': f.rule, 'key': f.full_key(), 'ok': f.ok, 'loc': f.loc, 'msg': f.msg, 'witness': f.witness[:12]})
    rules = sorted({f.rule for f in findings})
    cov = {
        'obligations': obligations,
        'discharged': discharged,
        'known_findings': len(known_hits),
        'checker_cmd': './check %s --tier %s' % (prop, tier),
        'trusted_base': ['rustc nightly MIR (-Zmir-opt-level=0) as dumped by /verif/rxlint', 'rule tables in /verif/rxcheck/props/%s.py' % prop.lower(),
                         'documented behaviour of std/futures/smallvec primitives'],
        'explanation': getattr(mod, 'EXPLANATION', ''),
        'rules': rules,
        'rule_instances': {r: len([f for f in findings if f.rule == r]) for r in rules},
        'configs': stats['configs'],
        'bodies_analysed': stats['bodies'],
        'impls_per_protocol_trait': stats['impls'],
        'event_graphs_built': stats['graphs'],
        'controls_expected': len(ctl_expected),
        'controls_detected': len(ctl_detected),
        'controls_note': ctl_note,
        'samples': samples or [{'note': 'no rule instance matched'}],
        'exhaustive': True,
    }
    if level == 'translation_validation':
        cov['programs'] = extra.get('programs', obligations)
        cov['disagreements_checked'] = extra.get('disagreements_checked', 0)
    cov.update({k: v for k, v in extra.items() if k not in cov})
    if hasattr(mod, 'coverage_extra'):
        cov.update(mod.coverage_extra(findings))
    evidence = {
        'property_id': prop,
        'tier': tier,
        'seed': seed,
        'level': level,
        'coverage': cov,
        'assumptions': getattr(mod, 'ASSUMPTIONS', []) + [
            'every syntactic path of the event graph is considered feasible',
            'dependencies behave as documented; wasm-only code is not analysed; value-level behaviour is not decided'],
        'wall_s': round(time.time() - t0, 2),
        'violations': len(new_viol),
    }
    if not os.environ.get('RXCHECK_NESTED'):
        with open(evid_path, 'w') as fh:
            json.dump(evidence, fh, indent=1)
    st = extra.get('mutation_selftest') if isinstance(extra, dict) else None
    if st and st.get('missed'):
        out.append('SELFTEST-MISS property=%s: kept seeded change(s) %s are no longer reported by this check' % (prop, st['missed']))
    print('\n'.join(out))
    print('%s tier=%s obligations=%d discharged=%d known=%d violations=%d controls=%d/%d wall=%.1fs' % (
        prop, tier, obligations, discharged, len(known_hits), len(new_viol), len(ctl_detected), len(ctl_expected), time.time() - t0))
    if new_viol:
        return 1
    if broken:
        return 3
    if obligations == 0:
        print('CHECK-BROKEN property=%s: no rule instance was evaluated (vacuous pass refused)' % prop)
        return 3
    return 0


if __name__ == '__main__':
    sys.exit(main(sys.argv[1:]))
