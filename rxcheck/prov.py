"""Path-sensitive provenance dataflow over the event graph (C03.S10, value-level definitions).

For one method body (callees inlined) every path from entry to a return is walked with an abstract store that maps
the self-rooted places written on the path (and the multi-definition locals) to a *provenance term*:
    ('item', path)          the incoming item (argument 2) or a part of it
    ('old', path)           the value self.<path> had when the method was entered
    ('const', text) / ('none',) / ('default',)
    ('some', v) / ('tuple', (v..)) / ('adt', name, (v..))
    ('ucall', k)            result of the k-th call of a user closure kept in self on this path
    ('added', old, v, how)  a container after v was inserted
    ('cmp', op, a, b), ('contains', set, v), ('inserted', set, v), ('pure', name, v), ('call', name)
    ('unk',)
Calls are evaluated where they execute (the value is remembered by call site), so `f(self.acc.clone(), v)` evaluated
before `self.acc = ...` and `self.acc.clone()` evaluated after it are told apart. Nothing is executed and no solver is
involved: terms are bounded in depth, the walk is the same product construction the other rules use.
Each return yields a summary: events (emissions with the provenance of their argument, user-closure calls with the
provenance of their arguments, in order), the final store, and the branch conditions taken on provenance terms."""
from .core import explore, ret_states, sw_value, down_method, const_bool, FN_CALLS, Incomplete
from .expr import access_path, strip, is_transparent

MAXD = 7
_maxd = [MAXD]
UNK = ('unk',)
_STD_COLL = ('std::collections::', 'std::vec::Vec', 'smallvec::', 'std::collections::VecDeque')
_ADD = ('push', 'push_back', 'push_front', 'insert', 'extend')
_POP = ('pop', 'pop_front', 'pop_back')
_PURE = ('clone', 'eq', 'ne', 'lt', 'le', 'gt', 'ge', 'partial_cmp', 'cmp', 'is_none', 'is_some', 'len', 'is_empty', 'contains', 'contains_key',
         'is_finished', 'is_closed', 'get', 'front', 'back', 'first', 'last', 'hash_one', 'hasher', 'borrow', 'to_owned', 'iter', 'as_ref', 'as_slice')
_CMP = {'eq': 'Eq', 'ne': 'Ne', 'lt': 'Lt', 'le': 'Le', 'gt': 'Gt', 'ge': 'Ge'}


def depth(v):
    if not isinstance(v, tuple):
        return 0
    return 1 + max([depth(x) for x in v] + [0])


def cap(v):
    return v if depth(v) <= _maxd[0] else UNK


def mentions_v(v, pred):
    if pred(v):
        return True
    if isinstance(v, tuple):
        return any(mentions_v(x, pred) for x in v if isinstance(x, tuple))
    return False


def is_item(v):
    return isinstance(v, tuple) and v and v[0] == 'item'


def has_item(v):
    return mentions_v(v, is_item)


def project(v, step):
    k = v[0]
    if k in ('old', 'item', 'self'):
        return (k, v[1] + (step,))
    if step == '@':
        return v
    if step.startswith('as '):
        if k == 'some' and step == 'as Some':
            return ('payload', v[1])
        if k == 'none':
            return ('bot',)
        return ('variant', v, step[3:])
    if k == 'payload' and step == '0':
        return v[1]
    if k == 'popped' and step == 'as Some':
        return ('payload', ('head', v[1], v[2]))
    if k == 'variant' and step == '0' and v[1][0] in ('ucall', 'call', 'pure', 'popped'):
        return ('payload-of', v[1])
    if k == 'tuple' and step.isdigit() and int(step) < len(v[1]):
        return v[1][int(step)]
    if k == 'adt' and len(v) > 3 and step in v[3]:
        return v[2][v[3].index(step)]
    if k == 'adt' and step.isdigit() and int(step) < len(v[2]):
        return v[2][int(step)]
    if step == '[]':
        return ('elem', v)
    if k in ('unk', 'bot'):
        return v
    return cap(('proj', v, step))


def _int(v):
    if v[0] == 'const':
        import re
        m = re.match(r'^(-?\d+)(?:_[iu](?:8|16|32|64|128|size))?$', v[1])
        return int(m.group(1)) if m else None
    return None


def _simplify(v):
    """len() of a container that was just added to is at least 1"""
    if v[0] == 'op' and len(v) == 4:
        op, a, b = v[1], v[2], v[3]
        flip = {'Gt': 'Lt', 'Lt': 'Gt', 'Ge': 'Le', 'Le': 'Ge', 'Eq': 'Eq', 'Ne': 'Ne'}
        if b[0] == 'pure' and b[1] == 'len' and op in flip:
            op, a, b = flip[op], b, a
        if a[0] == 'pure' and a[1] == 'len' and len(a) > 2 and a[2][0] == 'added' and _int(b) is not None:
            c = _int(b)
            res = {'Gt': c < 1, 'Ge': c <= 1, 'Ne': c < 1, 'Eq': False if c < 1 else None, 'Lt': False if c <= 1 else None, 'Le': False if c < 1 else None}.get(op)
            if res is True:
                return ('const', 'true')
            if res is False:
                return ('const', 'false')
    return v


class Walker:
    def __init__(self, g, item_arg=2, self_arg=1):
        self.g = g
        self.item_arg = item_arg
        self.self_arg = self_arg

    # -- store helpers (store is a dict during a step, frozen to a sorted tuple between steps)
    def resolve_self(self, store, path):
        """current value of self.<path>"""
        v = ('self', ())
        cur = ()
        for s in path:
            if v[0] == 'self':
                cur = cur + (s,)
                key = ('S',) + cur
                if key in store:
                    v = store[key]
                else:
                    v = ('self', cur)
            else:
                v = project(v, s)
        if v[0] == 'self':
            ext = [k for k in store if k[0] == 'S' and len(k) - 1 > len(v[1]) and k[1:len(v[1]) + 1] == v[1]]
            if ext:
                return ('mix', v[1], tuple(sorted((k[1:], store[k]) for k in ext)))
            return ('old', v[1])
        return v

    def place_path(self, e):
        root, steps = access_path(e)
        if root[0] == 'arg' and root[1] == self.self_arg and '!take' not in steps:
            return tuple(steps)
        return None

    def ev(self, e, store, vals):
        k = e[0]
        if k == 'arg':
            if e[1] == self.item_arg:
                return ('item', ())
            if e[1] == self.self_arg:
                return ('self', ())
            return ('arg', e[1])
        if k == 'field':
            b = self.ev(e[1], store, vals)
            if b[0] == 'self':
                return self._self_step(store, b[1] + (e[2],))
            return project(b, e[2])
        if k == 'variant':
            b = self.ev(e[1], store, vals)
            if b[0] == 'self':
                return self._self_step(store, b[1] + ('as ' + e[2],))
            return project(b, 'as ' + e[2])
        if k == 'index':
            b = self._fin(self.ev(e[1], store, vals), store)
            return project(b, '[]')
        if k == 'call':
            site = e[3]
            if site in vals:
                return vals[site]
            name = e[1]
            if name in ('rc::RcDeref::rc_deref', 'rc::RcDerefMut::rc_deref_mut') and e[2]:
                b = self.ev(e[2][0], store, vals)
                if b[0] == 'self':
                    return self._self_step(store, b[1] + ('@',))
                return project(b, '@')
            if is_transparent(name) and e[2]:
                return self.ev(e[2][0], store, vals)
            if name.endswith('::project') and e[2]:
                return self.ev(e[2][0], store, vals)
            if name.rsplit('::', 1)[-1] == 'clone' and e[2]:
                return self.ev(e[2][0], store, vals)
            return UNK
        if k == 'agg':
            ops = tuple(self._fin(self.ev(a, store, vals), store) for a in e[3])
            if e[1] == 'tuple':
                return cap(('tuple', ops))
            if e[1] == 'adt':
                if e[2].endswith('Option::Some') and ops:
                    return cap(('some', ops[0]))
                if e[2].endswith('Option::None'):
                    return ('none',)
                return cap(('adt', e[2], ops, tuple(e[5]) if len(e) > 5 else ()))
            if e[1] in ('closure', 'coroutine', 'coroutine_closure'):
                return ('closure', e[2], ops)
            return cap(('agg', e[1], ops))
        if k == 'const':
            return ('const', e[1].replace('const ', ''))
        if k == 'local':
            return store.get(('L', e[1]), UNK)
        if k == 'bin':
            a = self._fin(self.ev(e[2], store, vals), store)
            b = self._fin(self.ev(e[3], store, vals), store)
            return _simplify(cap(('op', e[1], a, b)))
        if k == 'un':
            return cap(('op', e[1], self._fin(self.ev(e[2], store, vals), store)))
        if k == 'discr':
            return cap(('discr', self._fin(self.ev(e[1], store, vals), store)))
        if k == 'fn':
            return ('fnitem', e[1])
        return UNK

    def _self_step(self, store, path):
        key = ('S',) + path
        if key in store:
            return store[key]
        return ('self', path)

    def _fin(self, v, store):
        """a symbolic 'self.path' left at the end of an evaluation is the current value of that place"""
        if v[0] == 'self':
            return self.resolve_self(store, v[1])
        return v

    def val(self, e, store, vals):
        return cap(self._fin(self.ev(e, store, vals), store))

    def write_self(self, store, path, v):
        key = ('S',) + path
        for k in [k for k in store if k[0] == 'S' and len(k) > len(key) and k[:len(key)] == key]:
            del store[k]
        # a write into a component of a stored tuple updates the tuple
        for n in range(len(path) - 1, 0, -1):
            pk = ('S',) + path[:n]
            if pk in store:
                pv = store[pk]
                rest = path[n:]
                if len(rest) == 1 and pv[0] == 'tuple' and rest[0].isdigit() and int(rest[0]) < len(pv[1]):
                    comps = list(pv[1])
                    comps[int(rest[0])] = v
                    store[pk] = cap(('tuple', tuple(comps)))
                else:
                    store[pk] = UNK
                return
        store[key] = cap(v)


def summaries(g, item_arg=2, self_arg=1, pure_extra=(), limit=60000, maxd=MAXD, track=None):
    """list of (summary, key) for every return of g, and the predecessor map for witnesses"""
    W = Walker(g, item_arg, self_arg)
    _maxd[0] = maxd

    def freeze(d):
        return tuple(sorted(d.items(), key=repr))

    def step(st, n, lab):
        store = dict(st[0])
        vals = dict(st[1])
        events, ucalls, conds = st[2], st[3], st[4]
        d, v = sw_value(lab)
        if d is not None:
            dv = W.val(d, store, vals)
            if dv[0] == 'const' and dv[1] in ('true', 'false') and v in (0, 1):
                if (dv[1] == 'true') != (v == 1):
                    return None
            elif dv[0] == 'discr':
                x = dv[1]
                if x[0] == 'some' and v == 0:
                    return None
                if x[0] == 'none' and v == 1:
                    return None
                if x[0] not in ('some', 'none'):
                    if any(c[0] == dv and c[1] != v for c in conds if isinstance(c[1], int) and isinstance(v, int)):
                        return None
                    conds = conds + ((dv, v),) if (dv, v) not in conds and len(conds) < 8 else conds
            elif dv[0] == 'op' and dv[1] == 'Not' and v in (0, 1):
                inner = dv[2]
                if inner[0] == 'const' and inner[1] in ('true', 'false'):
                    if (inner[1] == 'false') != (v == 1):
                        return None
                else:
                    if any(c[0] == inner and c[1] != 1 - v for c in conds):
                        return None
                    conds = conds + ((inner, 1 - v),) if (inner, 1 - v) not in conds and len(conds) < 8 else conds
            elif dv[0] != 'unk':
                if isinstance(v, int) and any(c[0] == dv and isinstance(c[1], int) and c[1] != v for c in conds):
                    return None
                conds = conds + ((dv, v),) if (dv, v) not in conds and len(conds) < 8 else conds
        kind = n['kind']
        if kind == 'assign':
            lhs = n['lhs']
            if lhs[0] == 'local':
                store[('L', lhs[1])] = W.val(n['rhs'], store, vals)
            elif lhs[0] != 'discr':
                p = W.place_path(lhs)
                if p is not None and p:
                    W.write_self(store, p, W.val(n['rhs'], store, vals))
                else:
                    root, steps = access_path(lhs)
                    if root[0] == 'local':
                        store[('L', root[1])] = UNK
        elif kind in ('call', 'enter') and n.get('name') != '<closure>':
            name = n['name']
            args = n['args']
            tail = name.rsplit('::', 1)[-1]
            site = n['value'][3] if n.get('value') and n['value'][0] == 'call' else None
            res = None
            m = down_method(n) if kind == 'call' else None
            if m in ('next', 'error', 'complete'):
                av = W.val(args[1], store, vals) if len(args) > 1 else None
                events = events + (('emit', m, av),)
                res = ('unit',)
            elif track and name in track and kind in ('call', 'enter'):
                # a call the rule wants to see as an event, with the provenance of its arguments
                k = len([e for e in events if e[0] == 'call'])
                events = events + (('call', track[name], tuple(W.val(a, store, vals) for a in args)),)
                res = ('tracked', track[name], k)
            elif name in FN_CALLS and kind == 'call' and args:
                cp = W.place_path(args[0])
                argv = W.val(args[1], store, vals) if len(args) > 1 else ('tuple', ())
                k = len(ucalls)
                ucalls = ucalls + ((cp, argv),)
                events = events + (('ucall', k),)
                res = ('ucall', k)
            elif kind == 'call' and name in ('std::option::Option::take', 'std::mem::take') and args:
                p = W.place_path(args[0])
                empty = ('none',) if name.endswith('Option::take') else ('default',)
                if p:
                    res = W.resolve_self(store, p)
                    W.write_self(store, p, empty)
                else:
                    a0 = strip(args[0])
                    if a0[0] == 'local':
                        res = store.get(('L', a0[1]), UNK)
                        store[('L', a0[1])] = empty
                    else:
                        res = UNK
            elif kind == 'call' and name in ('std::mem::replace', 'std::option::Option::replace', 'std::option::Option::insert') and len(args) > 1:
                p = W.place_path(args[0])
                nv = W.val(args[1], store, vals)
                if not name.endswith('mem::replace'):
                    nv = cap(('some', nv))
                if p:
                    res = W.resolve_self(store, p) if not name.endswith('insert') else nv
                    W.write_self(store, p, nv)
                else:
                    res = UNK
            elif kind == 'call' and tail in _ADD and name.startswith(_STD_COLL + ('std::iter::Extend',)) and len(args) > 1:
                p = W.place_path(args[0])
                x = W.val(args[-1], store, vals)
                if p:
                    old = W.resolve_self(store, p)
                    W.write_self(store, p, cap(('added', old, x, tail)))
                    res = cap(('inserted', old, x))
                else:
                    res = UNK
            elif kind == 'call' and tail in _POP and name.startswith(_STD_COLL) and args:
                p = W.place_path(args[0])
                if p:
                    q = W.resolve_self(store, p)
                    res = cap(('popped', q, tail))
                    W.write_self(store, p, cap(('rest', q, tail)))
                else:
                    res = UNK
            elif kind == 'call' and name in ('rc::RcDeref::rc_deref', 'rc::RcDerefMut::rc_deref_mut') and args:
                # a guard: stays a symbolic place, so that reads through it see the writes made so far on this path
                b = W.ev(args[0], store, vals)
                res = ('self', b[1] + ('@',)) if b[0] == 'self' else project(W._fin(b, store), '@')
            elif kind == 'call' and name in ('std::option::Option::unwrap', 'std::option::Option::expect', 'std::option::Option::unwrap_unchecked') and args:
                res = project(project(W.val(args[0], store, vals), 'as Some'), '0')
            elif kind == 'call' and (is_transparent(name) or name.endswith('::project')) and args:
                res = W.ev(args[0], store, vals)
            elif kind == 'call' and (tail in _PURE or tail in pure_extra or is_transparent(name)):
                a = [W.val(x, store, vals) for x in args]
                if tail == 'clone' and a:
                    res = a[0]
                elif tail in _CMP and len(a) == 2:
                    res = cap(('cmp', _CMP[tail], a[0], a[1]))
                elif tail in ('contains', 'contains_key') and len(a) == 2:
                    res = cap(('contains', a[0], a[1]))
                elif is_transparent(name) and a:
                    res = a[0]
                elif tail == 'is_empty' and a and a[0][0] == 'added':
                    res = ('const', 'false')      # a container that was just added to is not empty
                elif tail in ('is_none', 'is_some') and a and a[0][0] in ('some', 'none'):
                    res = ('const', 'true' if (a[0][0] == 'none') == (tail == 'is_none') else 'false')
                else:
                    res = cap(('pure', tail) + tuple(a[:2]))
            elif kind == 'call' and name.startswith('std::ops::') and tail in ('add', 'sub', 'mul', 'div', 'rem', 'neg', 'not') and args:
                res = cap(('op', tail.capitalize()) + tuple(W.val(x, store, vals) for x in args[:2]))
            elif kind == 'call':
                # unknown callee: havoc what it may write through a &mut argument rooted in self
                F = g.facts
                for a, aty in zip(args, n.get('arg_tys') or []):
                    p = W.place_path(a)
                    if p and aty is not None:
                        t = F.ty(aty)
                        if t['k'] == 'ref' and t.get('m'):
                            W.write_self(store, p, UNK)
                res = ('call', name)
            if res is not None and site is not None:
                vals[site] = res if res[0] == 'self' else cap(res)
            if res is not None and kind == 'call' and n.get('dest') and n['dest'][0] == 'local':
                store[('L', n['dest'][1])] = res if res[0] == 'self' else cap(res)
        elif kind == 'exit' and n.get('name') != '<closure>':
            site = n['value'][3] if n.get('value') and n['value'][0] == 'call' else None
            L = (n['ctx'] + ((n['fn'], n['bb'], n['body']),), 0)
            res = store.get(('L', L), UNK)
            if site is not None:
                vals[site] = res
            if n.get('dest') and n['dest'][0] == 'local':
                store[('L', n['dest'][1])] = res
        if len(events) > 8:
            raise Incomplete('provenance walk: more than 8 events on one path')
        return (freeze(store), freeze(vals), events, ucalls, conds)

    init = ((), (), (), (), ())
    reached, pred = explore(g, init, step)
    if len(reached) > limit:
        raise Incomplete('provenance walk: state space too large (%d)' % len(reached))
    out = []
    for key in ret_states(g, reached):
        st = key[1]
        store = dict(st[0])
        out.append(({'store': store, 'events': st[2], 'ucalls': st[3], 'conds': st[4], 'walker': W}, key))
    return out, pred


def cur(summary, path):
    return summary['walker'].resolve_self(summary['store'], tuple(path))


def show(v, n=0):
    if not isinstance(v, tuple):
        return str(v)
    if not v:
        return '()'
    k = v[0]
    if k == 'arg':
        return 'argument #%s' % (v[1] - 1 if isinstance(v[1], int) else v[1])
    if k == 'adt':
        return '%s{%s}' % (v[1].split('::')[-1], ', '.join(show(x, n + 1) for x in v[2]))
    if k == 'call':
        return v[1].split('::')[-1] + '()'
    if k in ('old', 'item'):
        return ('old self.' if k == 'old' else 'item') + ('.'.join(v[1]) if k == 'old' else (('.' + '.'.join(v[1])) if v[1] else ''))
    if k == 'const':
        return v[1]
    if k == 'ucall':
        return 'closure-call#%d' % v[1]
    if n > 3:
        return '…'
    if k == 'tuple':
        return '(%s)' % ', '.join(show(x, n + 1) for x in v[1])
    return '%s(%s)' % (k, ', '.join(show(x, n + 1) for x in v[1:] if isinstance(x, tuple) or isinstance(x, str)))


def decided(v):
    """the term contains nothing the walk could not resolve"""
    return not mentions_v(v, lambda x: isinstance(x, tuple) and x and x[0] in ('unk', 'call', 'proj', 'mix', 'bot', 'arg', 'agg', 'elem', 'popped'))


def cond_of(summary, pred):
    """value (0/1) of the first branch condition whose term satisfies pred, else None"""
    for term, val in summary['conds']:
        if pred(term):
            return val
    return None


def emits(summary, method=None):
    return [e for e in summary['events'] if e[0] == 'emit' and (method is None or e[1] == method)]
