"""C20 — group_by sends every item to exactly one group, in order (DESIGN §3 C20)."""
from ..core import (Finding, lang_check, down_method, recv_class, mentions, node_desc)
from ..expr import access_path, strip, render, walk
from .. import roles

ID = 'C20'
LEVEL = 'other'
EXPLANATION = ('Static rules on GroupByObserver: G1 in next() the group of a new key is announced downstream (inside the once-only '
               'or_insert_with closure) before the item is forwarded; on every path the item is forwarded exactly once, to the map entry looked '
               'up under the key computed from this very item, and the announced group wraps a clone of the subject that is inserted; G2 '
               'error()/complete() deliver the terminal to every drained group and then, once, to the outer observer; G5 the key map is indexed by the key value itself (key type parameter, entry(key)); G4 next() never removes a group from the key map (one group per key for the life of the source); G3 GroupByOp is '
               'instantiated for Subject and SubjectThreads only (handle types). G9 is_finished answers true only when the outer observer does (path rule of C16.E1, over-reporting verdicts only: a cold source that polls it stops and later keys are never announced); G8 the subject helper that admits waiting subscribers removes no live subscriber (a group_by whose stream of groups ended early reports finished but its groups are still fed); G7 the group subjects deliver every item and the terminal to every live subscriber of the group exactly once: the live list is walked inside one critical section and not edited during the walk, terminals take() it and skip only closed entries (same rules as C06.J1/J6/J3/J4); G6 every source delivers its terminal on every path, also when the observer reports finished early, so that it reaches the groups through G2 (same rule as C03.S1). Does not decide first-appearance order, hash routing or '
               'round-trip equality.')
ASSUMPTIONS = ['HashMap::entry/or_insert_with behave as documented']
TAG = 'ops::group_by::GroupByObserver'
CONTROLS = ['G1|<verif_controls::BadGroupBy<O, D, K, S> as Observer>::next', 'G2|<verif_controls::BadGroupBy<O, D, K, S> as Observer>::complete',
            'G9|<verif_controls::OrFinishedObserver<O> as Observer>::is_finished']


def check(cx):
    _env_wrapped = True
    from . import c03
    return _check_own(cx) + c03.envelopes(cx, ID) + _g9(cx)


def _g9(cx):
    """G9: GroupByObserver::is_finished never answers true while the outer observer is alive (a cold source polls it between items and
    stops: keys that appear later are never announced and their items reach no group). Same path rule as C16.E1, restricted to the
    over-reporting verdicts (hiding the end is C16's business and loses no item)."""
    from . import c16
    res = []
    for f in c16.e1(cx):
        if TAG.rsplit('::', 1)[1] not in f.key and not (cx.control and 'OrFinishedObserver' in f.key):
            continue
        st = getattr(f, 'state', None)
        bad = (not f.ok) and st != 'under' and st != 'const_false'
        res.append(Finding(ID, 'G9', f.key, not bad, f.msg if bad else 'is_finished is true only when the outer observer says so', f.loc, f.witness if bad else None))
    if not cx.control and not res:
        res.append(Finding(ID, 'G9', 'GroupByObserver::is_finished', False, 'anchor not found: no is_finished obligation for the group_by observer'))
    return res


def _check_own(cx):
    F = cx.facts
    res = []
    found = False
    for im in cx.observer_impls():
        tag = roles.impl_tag(cx, im)
        if tag != TAG and not (cx.control and tag == 'verif_controls::BadGroupBy'):
            continue
        found = True
        fn = cx.method(im, 'next')
        g = cx.graph(fn['key'])
        label = cx.label(fn)
        # the key map is the HashMap field; the outer observer is the field of bare parameter type that receives observer calls
        MAP = roles.field_where(cx, tag, lambda t, ti: t['k'] == 'adt' and t['p'].endswith('HashMap'), 'key -> group map')
        params = {'self.' + f for f, t in roles.adt_fields(cx, tag) if F.ty(t)['k'] == 'param'}

        def is_outer(e):
            return recv_class(e) in params

        def ev(n):
            if down_method(n) == 'next':
                return ('outer',) if is_outer(n['args'][0]) else ('group',)
            return None
        bad = lang_check(g, 'outer? group', ev, exact=True, empty_ok=False)
        ok = not bad
        msg = 'announce (new key only), then forward the item once'
        wit = bad[1] if bad else []
        if bad:
            msg = 'every item must be forwarded exactly once, after its group was announced: ' + bad[0]
        else:
            groups = [n for n in g.nodes if ev(n) == ('group',)]
            outers = [n for n in g.nodes if ev(n) == ('outer',)]
            def origins(e, depth=0):
                """the expression itself, or - when it is a local assigned on several arms of a match - every value assigned to it"""
                root, _steps = access_path(e)
                if root[0] == 'local' and depth < 3:
                    ds = [x['rhs'] for x in g.nodes if x['kind'] == 'assign' and x['lhs'] == root] + \
                         [x['value'] for x in g.nodes if x['kind'] in ('call', 'exit') and x.get('dest') == root and x.get('value')]
                    if ds:
                        return [o for d_ in ds for o in origins(d_, depth + 1)]
                return [e]
            for n in groups:
                r = n['args'][0]
                srcs = origins(r)
                entry = [e for e in walk(r) if e[0] == 'call' and e[1].endswith('HashMap::entry')]
                if not entry and srcs and all(any(e[0] == 'call' and e[1].endswith('HashMap::entry') for e in walk(s_)) for s_ in srcs):
                    entry = [e for e in walk(srcs[0]) if e[0] == 'call' and e[1].endswith('HashMap::entry')]
                keyed = entry and mentions(entry[0], lambda e: e[0] == 'call' and e[1] in ('std::ops::FnMut::call_mut', 'std::ops::Fn::call', 'std::ops::FnOnce::call_once')
                                           and mentions(e, lambda a: a[0] == 'arg' and a[1] == 2))
                if not keyed:
                    ok = False
                    msg = 'the group receiving the item is not the map entry of the key computed from this item'
                    wit = [node_desc(g, n)]
                if len(n['args']) < 2 or not (n['args'][1][0] == 'arg' and n['args'][1][1] == 2):
                    ok = False
                    msg = 'the forwarded value is not the incoming item'
            if not outers:
                ok = False
                msg = 'a group created for a new key is never announced to the stream of groups'
            for n in outers:
                a = n['args'][1] if len(n['args']) > 1 else ('unknown', '')
                subj = [e for e in walk(a) if e[0] == 'call' and e[1] == 'std::clone::Clone::clone']
                if 'std::collections::hash_map::Entry::or_insert_with' in g.vias(n):
                    # the closure returns the subject it announced a clone of
                    rets = [x for x in g.nodes if x['kind'] == 'assign' and x['ctx'] == n['ctx'] and x['lhs'][0] == 'local' and isinstance(x['lhs'][1], tuple) and x['lhs'][1][1] == 0]
                    same = subj and rets and all(strip(x['rhs']) == strip(subj[0][2][0]) for x in rets)
                else:
                    # explicit `match map.entry(k) { Vacant(slot) => { announce; slot.insert(subject) } .. }`: announced on one arm of
                    # the match on the entry only, and the subject inserted there is the one a clone of which was announced
                    from ..core import reachable
                    sw = [x for x in g.nodes if x['kind'] == 'switch' and mentions(x['discr'], lambda e: e[0] == 'call' and e[1].endswith('HashMap::entry'))]
                    one_arm = False
                    for x in sw:
                        arms = [m for m, k, l in g.succs(x['id'])]
                        hit = [m for m in arms if n['id'] in reachable(g, [m])]
                        if len(arms) >= 2 and len(hit) == 1:
                            one_arm = True
                    ins = [x for x in g.nodes if x['kind'] == 'call' and x['name'].endswith('VacantEntry::insert') and len(x['args']) > 1]
                    same = subj and ins and all(strip(x['args'][1]) == strip(subj[0][2][0]) for x in ins)
                    if not one_arm:
                        ok = False
                        msg = 'the group is announced outside the insert-once closure (it would be announced for every item)'
                if not same:
                    ok = False
                    msg = 'the announced group does not wrap (a clone of) the subject that is inserted into the map'
        res.append(Finding(ID, 'G1', label, ok, msg, fn['span'], wit))
        # G5: groups are indexed by the key itself: the map's key type is the key type parameter and the entry looked up is the
        # (clone of the) value the key function returned — not something derived from it such as a hash or a prefix
        mt = [F.ty(t) for f, t in roles.adt_fields(cx, tag) if f == MAP][0]
        kt = F.ty(mt['a'][0]) if mt.get('a') else {'k': '?', 's': '?'}
        direct = True
        for n in [x for x in g.nodes if x['kind'] == 'call' and x['name'].endswith('HashMap::entry')]:
            ka = strip(n['args'][1]) if len(n['args']) > 1 else ('unknown', '')
            while ka[0] == 'call' and ka[1] == 'std::clone::Clone::clone' and ka[2]:
                ka = strip(ka[2][0])
            if not (ka[0] == 'call' and ka[1] in ('std::ops::FnMut::call_mut', 'std::ops::Fn::call', 'std::ops::FnOnce::call_once')):
                direct = False
        okk = kt['k'] == 'param' and direct
        res.append(Finding(ID, 'G5', label, okk,
                           'groups are indexed by the key value itself' if okk else
                           'groups are indexed by %s rather than by the key returned by the key function: distinct keys can share a group' % (kt['s'] if kt['k'] != 'param' else 'a value derived from the key'),
                           fn['span']))
        # G4: a group lives as long as the source: next() never removes entries from the map
        removers = [x for x in g.nodes if x['kind'] == 'call' and x['args'] and x['name'].rsplit('::', 1)[-1] in
                    ('retain', 'remove', 'remove_entry', 'clear', 'drain', 'extract_if', 'take') and recv_class(x['args'][0]) == 'self.' + MAP]
        res.append(Finding(ID, 'G4', label, not removers,
                           'groups are never dropped while the source is live' if not removers else
                           'next() removes groups from the key map: a key that recurs is announced a second time and its items are split over two groups; the dropped group never gets its terminal',
                           g.loc(removers[0]) if removers else fn['span'], [node_desc(g, x) for x in removers]))
        for meth in ('error', 'complete'):
            fn = cx.method(im, meth)
            g = cx.graph(fn['key'])

            def ev2(n, meth=meth):
                if down_method(n) == meth:
                    return ('outer',) if is_outer(n['args'][0]) else ('group',)
                if down_method(n) in ('next', 'error', 'complete'):
                    return ('other',)
                return None
            bad = lang_check(g, 'group* outer', ev2, exact=True, empty_ok=False)
            drained = [n for n in g.nodes if ev2(n) == ('group',) and mentions(n['args'][0], lambda e: e[0] == 'call' and e[1].rsplit('::', 1)[-1] in ('drain', 'into_iter', 'into_values', 'values_mut', 'iter_mut'))]
            ok = not bad and bool(drained)
            res.append(Finding(ID, 'G2', cx.label(fn), ok,
                               'every group gets the terminal, then the outer observer once' if ok else
                               ('terminal fan-out broken: ' + (bad[0] if bad else 'the groups in the map do not receive the terminal')), fn['span'], bad[1] if bad else []))
    if cx.control:
        return res
    if not found:
        res.append(Finding(ID, 'G1', 'floor', False, 'GroupByObserver not found'))
    ims = [im for im in F.impls_of('observable::Observable') if roles.impl_tag(cx, im) == 'ops::group_by::GroupByOp']
    for im in sorted(ims, key=lambda i: i['self_s']):
        a = F.ty(im['self'])['a']
        st = roles.type_tag(F, a[2]) if len(a) > 2 else '?'
        ok = st in ('subject::Subject', 'subject::SubjectThreads')
        res.append(Finding(ID, 'G3', 'Observable for ' + im['self_s'], ok, 'group subject type fixed to %s' % st, im['span']))
    if len(ims) != 2:
        res.append(Finding(ID, 'G3', 'floor', False, 'expected the two GroupByOp instantiations, found %d' % len(ims)))
    # G6: the groups only learn about the end of the source through GroupByObserver's own complete()/error(): every source delivers
    # its terminal on every path, also when the stream of groups reports finished early (same rule as C03.S1)
    from . import c03
    for f in c03.s1(cx):
        if not f.key.startswith(('table:', 'floor')) and (f.ok or ('still expected' in f.msg and ('complete' in f.msg or 'error' in f.msg))):
            res.append(Finding(ID, 'G6', f.key, f.ok, f.msg, f.loc, f.witness))
    # G7: a group is a Subject: its item and terminal broadcasts reach every live subscriber of the group, once — the live list is walked
    # inside one critical section and not edited meanwhile (same rules as C06.J1/J6), terminals take it and skip only closed entries (J3/J4)
    from . import c06
    for f in c06.check(cx):
        if f.rule in ('J1', 'J3', 'J4', 'J6') and ('subject::Subject<' in f.key or 'subject::SubjectThreads<' in f.key):
            res.append(Finding(ID, 'G7', f.rule + ':' + f.key, f.ok, f.msg, f.loc, f.witness))
    # G8: the subject a group_by is subscribed to (a hot source, or a group that is grouped again) drops no live subscriber while it
    # admits new ones: GroupByObserver reports finished as soon as the stream of groups has ended, while its groups are still fed
    g8 = [f for f in c06.loader_edits(cx, ID, 'G8') if 'subject::Subject<' in f.key or 'subject::SubjectThreads<' in f.key]
    res += g8
    if len(g8) < 2:
        res.append(Finding(ID, 'G8', 'floor', False, 'load helper of Subject/SubjectThreads not found'))
    return res
