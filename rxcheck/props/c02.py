"""C02 — nothing after unsubscribe() returns (DESIGN §3 C02)."""
from ..core import (Finding, lang_check, reachable, node_desc, recv_class, mentions, SUBSCRIBE, SCHEDULE, UNSUB_NAMES, TAKE, down_method)
from ..expr import access_path, strip, render, walk
from .. import roles
from . import c17, c19

ID = 'C02'
LEVEL = 'other'
EXPLANATION = ('Inductive argument over the pipeline, each step a static rule: U1 every task handle returned by Scheduler::schedule and every '
               'subscription returned by actual_subscribe, in every operator and observer method, flows on every path into the subscription '
               'handed back to the caller (returned, appended to a MultiSubscription that the operator returns, or stored in a shared cell '
               'that the operator returns); U2 unsubscribe() of every composite subscription unsubscribes each part; U3 a subscriber\'s '
               'unsubscribe empties its observer slot; U4 task cancellation is atomic with running (same rule as C19.H3); U6 a shared observer slot delivers only while holding its cell guard, so unsubscribe (same cell) cannot return while a notification is in flight; U5 a late addition '
               'to an unsubscribed composite is unsubscribed (same rule as C17.K2); U7 where an operator hands back a pair of its source subscription and a re-fillable handle cell (MutRc/MutArc<Option<handle>>, refilled by every next()), the pair tears the source down first, so no item can arm a fresh timer after the cell was emptied; U8 parts leave a MultiSubscription only through unsubscribe (same rule as C17.K6); U10 no unsubscribe() has a path that does nothing at all unless it has found its slot / state empty (an early return on any other condition leaves the subscription live); U9 a stored task handle is overwritten only when absent, closed or cancelled (same rule as C19.H8). Declined: lock-level interleavings beyond U6; virtual-time positions '
               'of the cut are irrelevant to a per-function invariant.')
ASSUMPTIONS = ['a released resource (emptied slot, cancelled task) delivers nothing: C01.P3, C19.H3']

U1_EXEMPT = {
    '<ops::ref_count::ShareOp as Observable>::actual_subscribe|connect': 'the connection is owned by the shared subject and released by the last RefCountSubscription (C11.P-c)',
    '<ops::ref_count::ShareOpThreads as Observable>::actual_subscribe|connect': 'same (thread-safe instance)',
}
CONTROLS = [
    'U1|<verif_controls::DropHandleObserver<O, SD> as Observer>::next',
    'U1|<verif_controls::FieldHandleObserver<O, SD> as Observer>::next',
    'U2|<verif_controls::OneSidedUnsub<A, B> as Subscription>::unsubscribe',
    'U6|<verif_controls::EarlyReleaseSlot<O> as Observer>::complete',
    'U3|<verif_controls::LazyMulti as Subscription>::unsubscribe',
    'U7|<verif_controls::HandleFirstOp<S> as Observable>::Unsub',
]


def check(cx):
    res = u1(cx) + u2(cx) + u3(cx) + u6(cx) + u7(cx) + u10(cx)
    for f in c19.h3(cx):
        res.append(Finding(ID, 'U4', f.key, f.ok, f.msg, f.loc, f.witness))
    for f in c17.k2(cx):
        res.append(Finding(ID, 'U5', f.key, f.ok, f.msg, f.loc, f.witness))
    for f in c17.k4(cx):
        res.append(Finding(ID, 'U3', f.key, f.ok, f.msg, f.loc, f.witness))
    if not cx.control:
        for f in c17.k6(cx):
            res.append(Finding(ID, 'U8', f.key, f.ok, f.msg, f.loc, f.witness))
        for f in c19.h8(cx):
            res.append(Finding(ID, 'U9', f.key, f.ok, f.msg, f.loc, f.witness))
    return res


def _roots(cx):
    F = cx.facts
    roots = []
    for im in F.impls.values():
        tr = im.get('trait')
        if tr == 'observable::Observable':
            meths = ['actual_subscribe']
        elif tr == 'observer::Observer':
            meths = ['next', 'error', 'complete']
        else:
            continue
        for m in meths:
            fn = F.impl_fn(im, m)
            if fn:
                roots.append(fn)
                for ck in F.children.get(fn['key'], []):
                    roots.append(F.fns[ck])
    for fn in F.fns.values():
        if fn['kind'] == 'fn' and fn.get('name', '').endswith('_task'):
            roots.append(fn)
    return roots


def u1(cx):
    F = cx.facts
    res = []
    n_res = 0
    cell_sinks = []   # (observer adt, field class, fn) to be matched against the constructing operator
    for fn in sorted(_roots(cx), key=lambda f: f['key']):
        g = cx.graph(fn['key'])
        label = cx.label(fn)
        producers = [n for n in g.nodes if n['kind'] in ('call', 'enter') and not n['ctx'] and (
            n['name'] in (SUBSCRIBE, SCHEDULE) or n['name'].endswith('ConnectableObservable::connect'))]
        if not producers:
            continue
        ret_nodes = set()
        for n in g.nodes:
            if n['ctx']:
                continue
            if n['kind'] == 'assign' and n['lhs'][0] == 'local' and n['lhs'][1] == 0:
                ret_nodes.add(n['id'])
            if n['kind'] in ('call', 'exit') and n.get('dest') and n['dest'][0] == 'local' and n['dest'][1] == 0:
                ret_nodes.add(n['id'])
        bad = None
        for p in producers:
            n_res += 1
            V = strip(p['value'])
            what = 'connect' if p['name'].endswith('connect') else ('task handle' if p['name'] == SCHEDULE else 'subscription')
            if (roles.stable_label(cx, fn) + '|connect') in U1_EXEMPT and what == 'connect':
                continue

            def has(e):
                return mentions(e, lambda x: strip(x) == V)
            sinks = set()
            for n in g.nodes:
                if n['id'] in ret_nodes:
                    if n['kind'] == 'assign' and has(n['rhs']):
                        sinks.add(n['id'])
                    elif n['kind'] in ('call', 'exit') and (n is p or g.nodes[n['id']] is p or any(has(a) for a in n['args'])):
                        sinks.add(n['id'])
                if n['kind'] in ('call', 'enter') and n['name'].endswith('::append') and any(has(a) for a in n['args'][1:]):
                    sinks.add(n['id'])
                    cell_sinks.append((fn, recv_class(n['args'][0])))
                if n['kind'] == 'assign' and '@' in access_path(n['lhs'])[1] and has(n['rhs']):
                    sinks.add(n['id'])
                    cell_sinks.append((fn, recv_class(n['lhs'])))
                if n['kind'] == 'call' and n['name'] in ('std::option::Option::replace', 'std::option::Option::insert', 'std::mem::replace') and n['args'] \
                        and '@' in access_path(n['args'][0])[1] and any(has(a) for a in n['args'][1:]):
                    sinks.add(n['id'])
                    cell_sinks.append((fn, recv_class(n['args'][0])))
            if p['id'] in ret_nodes:
                sinks.add(p['id'])
            # exit node of an inlined producer that writes _0
            for n in g.nodes:
                if n['kind'] == 'exit' and n['bb'] == p['bb'] and n['fn'] == p['fn'] and n['ctx'] == p['ctx'] and n['id'] in ret_nodes:
                    sinks.add(n['id'])
            if p['id'] in sinks:
                continue
            start = [m for m, k, l in g.succs(p['id'])]
            if p['kind'] == 'enter':
                start = [n['id'] for n in g.nodes if n['kind'] == 'exit' and n['bb'] == p['bb'] and n['fn'] == p['fn'] and n['ctx'] == p['ctx']]
            seen = reachable(g, start, stop=lambda n: n['id'] in sinks)
            leak = [r for r in g.rets if r in seen]
            if leak or not sinks:
                bad = (p, what)
                break
        if bad:
            p, what = bad
            res.append(Finding(ID, 'U1', label, False,
                               'the %s produced here does not reach the subscription handed back to the caller on every path: unsubscribe() cannot cancel it, so it can still deliver afterwards' % what,
                               g.loc(p), [node_desc(g, p)]))
        else:
            res.append(Finding(ID, 'U1', label, True, '%d resource(s) registered with the returned subscription' % len(producers), fn['span']))
    # the cells / composites used as sinks must be shared with what the constructing operator returns
    seen_pairs = set()
    for fn, cls in cell_sinks:
        root = F.fns.get(fn.get('root')) if fn.get('root') else fn
        im = F.impl_of_fn(root)
        if im is None or not cls.startswith('self.') or cls.count('.') != 1:
            continue
        adt = F.adt_path(im['self'])
        field = cls.split('.', 1)[1]
        if (adt, field) in seen_pairs or adt is None:
            continue
        seen_pairs.add((adt, field))
        ok, why, loc = _shared_with_return(cx, adt, field)
        res.append(Finding(ID, 'U1', 'handle store %s.%s' % (adt, field), ok, why, loc))
    if not cx.control and n_res < roles.FLOORS['C02.U1.resources']:
        res.append(Finding(ID, 'U1', 'floor', False, 'only %d schedule/subscribe results found, expected >= %d' % (n_res, roles.FLOORS['C02.U1.resources'])))
    return res


def _shared_with_return(cx, adt, field):
    """the observer struct `adt` is built in some actual_subscribe with `field` = (clone of) X, and X is part of the value returned there"""
    F = cx.facts
    sites = 0
    for im in F.impls_of('observable::Observable'):
        fn = F.impl_fn(im, 'actual_subscribe')
        if fn is None:
            continue
        g = None
        for b in fn['blocks']:
            for s in b['s']:
                if s['k'] == 'assign' and s['rv']['r'] == 'agg' and s['rv'].get('ak') == 'adt' and s['rv']['p'] == adt:
                    g = cx.graph(fn['key'])
        if g is None:
            continue
        sites += 1
        aggs = set()
        for n in g.nodes:
            for e in ([n.get('rhs')] if n['kind'] == 'assign' else n.get('args', [])):
                if e is None:
                    continue
                for x in walk(e):
                    if x[0] == 'agg' and x[1] == 'adt' and x[2].startswith(adt + '::') and field in x[5]:
                        aggs.add(x)
        rets = []
        for n in g.nodes:
            if n['ctx']:
                continue
            if n['kind'] == 'assign' and n['lhs'][0] == 'local' and n['lhs'][1] == 0:
                rets.append(n['rhs'])
            if n['kind'] in ('call', 'exit') and n.get('dest') and n['dest'][0] == 'local' and n['dest'][1] == 0:
                rets.append(n['value'])
        for a in aggs:
            v = strip(a[3][a[5].index(field)])
            base = v
            if base[0] == 'call' and base[1] == 'std::clone::Clone::clone' and base[2]:
                base = strip(base[2][0])
            if not any(mentions(r, lambda x: strip(x) == base) for r in rets):
                return False, '%s.%s is initialised with %s, which is not part of the subscription returned by %s: handles stored there cannot be reached by unsubscribe()' % (
                    adt.split('::')[-1], field, render(v)[:50], cx.label(fn)), fn['span']
    if sites == 0:
        return False, 'no actual_subscribe constructs %s (cannot show that its handle store is covered by a returned subscription)' % adt, ''
    return True, 'initialised from a cell/composite that the constructing actual_subscribe returns', ''


def u2(cx):
    F = cx.facts
    res = []
    n = 0
    for im in sorted(F.impls_of('subscription::Subscription'), key=lambda i: (i['file'], i['line'], i['self_s'])):
        fn = F.impl_fn(im, 'unsubscribe')
        if fn is None:
            continue
        adt = F.adts.get(F.adt_path(im['self']) or '')
        if adt is None:
            continue
        # parts: fields whose declared type is a type parameter bounded by Subscription in this impl
        subs_params = {F.tystr(p['self']) for p in im['preds'] if p['k'] == 'trait' and p['tr'] == 'subscription::Subscription'}
        st = F.ty(F.strip_refs(im['self']))
        amap = dict(zip(adt['generics'], [F.tystr(a) for a in st.get('a', [])]))
        parts = []
        for v in adt['variants']:
            for f in v['fields']:
                ft = F.ty(f['t'])
                if ft['k'] == 'param' and amap.get(ft['n'], ft['n']) in subs_params:
                    if c17.k1_exempt(cx, im, 'self.' + f['n']):
                        continue  # shared, ref-counted resource (released by the last leaver, C11.P-c)
                    parts.append(f['n'])
        if not parts:
            continue
        n += 1
        g = cx.graph(fn['key'])
        label = cx.label(fn)
        missing = []
        for part in parts:
            def ev(x, part=part):
                if x['kind'] in ('call', 'enter') and x['name'] in UNSUB_NAMES and x['args'] and recv_class(x['args'][0]) == 'self.' + part:
                    return ('unsub',)
                return None
            if lang_check(g, 'unsub', ev, exact=True, empty_ok=True):
                missing.append(part)
        if missing:
            res.append(Finding(ID, 'U2', label, False, 'unsubscribe() does not unsubscribe part(s) %s on every path: what they deliver continues' % missing, fn['span']))
        else:
            res.append(Finding(ID, 'U2', label, True, 'unsubscribes every part %s' % parts, fn['span']))
    if cx.control:
        return res
    if n < 3:
        res.append(Finding(ID, 'U2', 'floor', False, 'only %d composite subscriptions with parameter parts found, expected >= 3' % n))
    # collection / boxed / option-cell composites: the part is unsubscribed where it exists
    for tag, want in (('subscription::MultiSubscription', 'std::iter::Iterator::for_each'), ('subscription::MultiSubscriptionThreads', 'std::iter::Iterator::for_each'),
                      ('subscription::BoxSubscription', None), ('subscription::BoxSubscriptionThreads', None), ('_', None), ('scheduler::TaskHandle', None)):
        for im in F.impls_of('subscription::Subscription'):
            if roles.impl_tag(cx, im) != tag or (tag == 'scheduler::TaskHandle' and 'SubscribeReturn' not in im['self_s']):
                continue
            fn = F.impl_fn(im, 'unsubscribe')
            g = cx.graph(fn['key'])
            us = [x for x in g.nodes if x['kind'] == 'call' and x['name'] in UNSUB_NAMES]
            ok = bool(us) and (want is None or all('!take' in access_path(x['args'][0])[1] for x in us))
            res.append(Finding(ID, 'U2', cx.label(fn), ok, 'unsubscribes its content' if ok else 'does not unsubscribe its content', fn['span']))
    # SubscriptionGuard::drop
    for im in F.impls_of('std::ops::Drop'):
        if roles.impl_tag(cx, im) == 'subscription::SubscriptionGuard':
            fn = F.impl_fn(im, 'drop')
            g = cx.graph(fn['key'])
            us = [x for x in g.nodes if x['kind'] == 'call' and x['name'] in UNSUB_NAMES and '!take' in access_path(x['args'][0])[1]]
            res.append(Finding(ID, 'U2', cx.label(fn), bool(us), 'dropping the guard unsubscribes' if us else 'dropping the guard does not unsubscribe', fn['span']))
    return res


def u3(cx):
    F = cx.facts
    res = []
    if cx.control:
        return res
    n = 0
    for im in F.impls_of('subscription::Subscription'):
        if roles.impl_tag(cx, im) not in ('subscriber::Subscriber', 'subscriber::SubscriberThreads'):
            continue
        n += 1
        fn = F.impl_fn(im, 'unsubscribe')
        g = cx.graph(fn['key'])
        slot = 'self.' + roles.field_where(cx, roles.impl_tag(cx, im), lambda t, ti: t['k'] == 'adt' and t['p'] in ('rc::MutRc', 'rc::MutArc'), 'slot')

        def ev(x):
            if x['kind'] == 'call' and x['name'] in TAKE and x['args'] and recv_class(x['args'][0]) == slot:
                return ('take',)
            return None
        bad = lang_check(g, 'take', ev, exact=True, empty_ok=False)
        res.append(Finding(ID, 'U3', cx.label(fn), not bad, 'empties the shared observer slot' if not bad else 'unsubscribe does not empty the observer slot: ' + bad[0], fn['span']))
    if n < 2:
        res.append(Finding(ID, 'U3', 'floor', False, 'Subscriber impls not found'))
    return res


def u6(cx, tags=('MutRc<Option<_>>', 'MutArc<Option<_>>'), prop=None, rule='U6'):
    """delivery through a shared slot is serialised with unsubscribe: the downstream call is made while the
    guard of the slot's cell is held, so unsubscribe() (which takes the same cell) cannot return while a
    notification is still on its way"""
    from ..core import lock_scopes
    res = []
    n = 0
    for im in cx.observer_impls():
        tag = roles.impl_tag(cx, im)
        shared = tag in tags or (cx.control and tag == 'verif_controls::EarlyReleaseSlot')
        if not shared:
            continue
        n += 1
        for meth in ('next', 'error', 'complete'):
            fn = cx.method(im, meth)
            g = cx.graph(fn['key'])
            held = lock_scopes(g)
            downs = [x for x in g.nodes if down_method(x) == meth]
            bad = [x for x in downs if not held[x['id']]]
            ok = bool(downs) and not bad
            res.append(Finding(prop or ID, rule, cx.label(fn), ok,
                               'delivers while holding the slot guard' if ok else
                               'the notification is delivered after the slot guard was released: an unsubscribe() on another thread can return while it is still on its way to the subscriber',
                               fn['span'], [node_desc(g, x) for x in bad]))
    if not cx.control and n < 2:
        res.append(Finding(prop or ID, rule, 'floor', False, 'shared slot observer impls not found'))
    return res


def u7(cx):
    """pair subscriptions (ZipSubscription-like) tear their parts down in a fixed order; a re-fillable handle cell
    (a shared Option<handle> that next() overwrites) must come after the source subscription in that order"""
    F = cx.facts
    res = []
    order = {}
    for im in F.impls_of('subscription::Subscription'):
        tag = roles.impl_tag(cx, im)
        fields = [n for n, t in roles.adt_fields(cx, tag)]
        if len(fields) != 2:
            continue
        fn = F.impl_fn(im, 'unsubscribe')
        if fn is None:
            continue
        g = cx.graph(fn['key'], inline=False)
        seq = []
        for n in g.nodes:
            if n['kind'] == 'call' and n['name'] in UNSUB_NAMES and n['args']:
                root, steps = access_path(n['args'][0])
                if root[0] == 'arg' and root[1] == 1 and steps and steps[0] in fields and steps[0] not in seq:
                    seq.append(steps[0])
        adt = F.adts.get(tag)
        if len(seq) == 2 and adt and len(adt['generics']) >= 2:
            # position of the type parameter of each field among the generics of the pair type
            pos = []
            for f in seq:
                t = F.ty(dict(roles.adt_fields(cx, tag))[f])
                pos.append(adt['generics'].index(t['n']) if t['k'] == 'param' and t['n'] in adt['generics'] else None)
            if None not in pos:
                order[tag] = pos
    n = 0
    for im in F.impls_of('observable::Observable'):
        tag = roles.impl_tag(cx, im)
        if cx.control != ('verif_controls' in tag):
            continue
        for a in im.get('assoc_tys', []):
            if a['n'] != 'Unsub':
                continue
            t = F.ty(a['t'])
            if t['k'] != 'adt' or t['p'] not in order or len(t.get('a', [])) < 2:
                continue
            first, second = [F.ty(t['a'][i]) for i in order[t['p']]]
            is_cell = lambda x: roles.is_cell_of(F, x, lambda o: roles.is_option_of(F, o))
            is_src = lambda x: x['k'] == 'alias' and x.get('p') == 'observable::Observable::Unsub'
            if not ((is_cell(first) and is_src(second)) or (is_cell(second) and is_src(first))):
                continue
            n += 1
            ok = is_src(first)
            res.append(Finding(ID, 'U7', '<%s as Observable>::Unsub' % im['self_s'], ok,
                               'the source is torn down before the re-fillable handle cell' if ok else
                               'unsubscribe() empties the handle cell before it silences the source: an item that arrives in between stores a fresh task handle that nobody cancels, and the task delivers after unsubscribe() returned',
                               im['span']))
    if not cx.control and n < 2:
        res.append(Finding(ID, 'U7', 'floor', False, 'expected the debounce and throttle pair subscriptions, found %d' % n))
    return res


def u10(cx):
    """unsubscribe() is never a silent no-op on a live subscription (same analysis as C03.S12)"""
    from . import c03
    from ..core import witness, interesting_default
    F = cx.facts
    res = []
    if cx.control:
        return res
    n = 0
    for im in F.impls_of('subscription::Subscription'):
        fn = F.impl_fn(im, 'unsubscribe')
        if fn is None:
            continue
        if F.tystr(im['self']) == '()':
            continue       # the unit subscription has nothing to tear down
        n += 1
        bad, g, pred = c03.silent_paths(cx, fn)
        res.append(Finding(ID, 'U10', cx.label(fn), not bad,
                           'unsubscribe() has a path that does nothing at all although it has not found its slot empty: the subscription stays live on that path'
                           if bad else 'every path of unsubscribe() tears something down or has found the slot empty', fn['span'],
                           witness(g, pred, bad[0], interesting_default) if bad else None))
    if n < 15:
        res.append(Finding(ID, 'U10', 'floor', False, 'only %d Subscription impls analysed, expected >= 15' % n))
    return res
