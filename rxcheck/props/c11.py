"""C11 — publish/connect and share (DESIGN §3 C11)."""
from ..core import (Finding, lang_check, lock_scopes, down_method, recv_class, node_desc, mentions, SUBSCRIBE, UNSUB_NAMES)
from ..expr import access_path, strip, render
from .. import roles

ID = 'C11'
LEVEL = 'other'
EXPLANATION = ('Static rules: P-a the source of a ConnectableObservable is subscribed only inside connect() (not in new/fork/actual_subscribe/'
               'ShareOp::new); P-b connect(self) consumes the connectable (no Clone impl) and in ShareOp*::actual_subscribe it is reachable '
               'only after the state was replaced by Connected, all under the ShareOp cell guard, so the source is subscribed exactly once '
               'also with racing first subscribers; P-c the last leaver is no longer counted when RefCountSubscription asks '
               'is_empty() (either the subject size counts live publishers only, or retain() runs first), so the source is released; P-d the subject size covers both the live and the waiting list; P-g ShareOp::actual_subscribe unsubscribes nothing (only the returned RefCountSubscription tears the share down: a join never does); P-h nothing ShareOp::actual_subscribe does (helpers inlined) acquires the live subscriber list of the inner subject (a join from inside a callback happens while the multicast holds it); P-f Publisher::p_is_closed counts a subscriber as gone when its observer finished by itself OR it was unsubscribed (both consulted); P-e the inner subject multicasts every notification to every present subscriber (same rules as C06.J1/J2/J3/J4/J6). '
               'Does not decide join/leave histories beyond these rules; multicast itself is C06.')
ASSUMPTIONS = []

CONTROLS = [
    'P-f|<verif_controls::StickyPublisher<O> as Publisher>::p_is_closed',
    'P-a|<verif_controls::EagerConnectable<S, Subject>>::new',
    'P-c|<verif_controls::CountingRefCount<Subject, U> as Subscription>::unsubscribe',
]
CONN = 'observable::connectable_observable::ConnectableObservable'


def check(cx):
    _env_wrapped = True
    from . import c03
    return _check_own(cx) + c03.envelopes(cx, ID)


def _check_own(cx):
    F = cx.facts
    res = []
    conn = 'verif_controls::EagerConnectable' if cx.control else CONN
    # P-a
    n = 0
    # the hub (subject) field of the connectable: the field that connect() passes as the observer of the source
    hub = None
    for fn0 in F.fns.values():
        if fn0.get('name') == 'connect' and fn0.get('impl') and roles.impl_tag(cx, F.impls[fn0['impl']]) == conn:
            g0 = cx.graph(fn0['key'])
            for x in g0.nodes:
                if x['kind'] in ('call', 'enter') and x['name'] == SUBSCRIBE and len(x['args']) > 1:
                    hub = recv_class(x['args'][1])
    for im in sorted(F.impls.values(), key=lambda i: (i['file'], i['line'])):
        if roles.impl_tag(cx, im) != conn:
            continue
        for f in im['fns']:
            fn = F.fns.get(f['key'])
            if fn is None:
                continue
            n += 1
            g = cx.graph(fn['key'])
            subs = [x for x in g.nodes if x['kind'] in ('call', 'enter') and x['name'] == SUBSCRIBE and x['args'] and recv_class(x['args'][0]) != hub]
            if f['n'] == 'connect':
                res.append(Finding(ID, 'P-a', cx.label(fn), len(subs) == 1, 'connect() subscribes the subject to the source' if len(subs) == 1 else 'connect() does not subscribe the source exactly once', fn['span']))
            else:
                res.append(Finding(ID, 'P-a', cx.label(fn), not subs, 'does not touch the source' if not subs else 'subscribes the source before connect() was called', fn['span'],
                                   [node_desc(g, x) for x in subs]))
    if not cx.control and n < 4:
        res.append(Finding(ID, 'P-a', 'floor', False, 'expected >= 4 ConnectableObservable methods, found %d' % n))
    if cx.control:
        return res + pc(cx) + pf(cx)
    # P-b
    clone = [im for im in F.impls_of('std::clone::Clone') if roles.impl_tag(cx, im) == CONN]
    res.append(Finding(ID, 'P-b', 'no Clone for ConnectableObservable', not clone, 'a connectable cannot be duplicated' if not clone else 'ConnectableObservable is Clone: two copies could both connect', clone[0]['span'] if clone else ''))
    cf = [fn for fn in F.fns.values() if fn.get('name') == 'connect' and fn.get('impl') and roles.impl_tag(cx, F.impls[fn['impl']]) == CONN]
    if cf:
        t = F.ty(cf[0]['inputs'][0])
        res.append(Finding(ID, 'P-b', 'connect(self)', t['k'] == 'adt', 'connect takes the connectable by value' if t['k'] == 'adt' else 'connect no longer consumes the connectable', cf[0]['span']))
    else:
        res.append(Finding(ID, 'P-b', 'connect(self)', False, 'connect not found'))
    m = 0
    for im in F.impls_of('observable::Observable'):
        tag = roles.impl_tag(cx, im)
        if tag not in ('ops::ref_count::ShareOp', 'ops::ref_count::ShareOpThreads'):
            continue
        m += 1
        fn = F.impl_fn(im, 'actual_subscribe')
        g = cx.graph(fn['key'])
        label = cx.label(fn)
        held = lock_scopes(g)

        def ev(x):
            if x['kind'] == 'call' and x['name'] == 'std::mem::replace' and len(x['args']) > 1:
                a = strip(x['args'][1])
                if a[0] == 'agg' and a[1] == 'adt' and '@' in access_path(x['args'][0])[1]:      # the new state value (whatever its variant is called)
                    return ('replace',)
            if x['kind'] in ('call', 'enter') and x['name'].endswith('ConnectableObservable::connect'):
                return ('connect',)
            return None
        bad = lang_check(g, '(replace connect)?', ev, exact=True, empty_ok=False)
        conns = [x for x in g.nodes if ev(x) == ('connect',)]
        locked = bool(conns) and all(any(h[1] == 'self.0' and h[2] == 'W' for h in held[x['id']]) for x in conns)
        subs_under = [x for x in g.nodes if x['kind'] in ('call', 'enter') and x['name'] == SUBSCRIBE and not x['ctx']]
        locked2 = all(any(h[1] == 'self.0' for h in held[x['id']]) for x in subs_under)
        ok = not bad and locked and locked2
        res.append(Finding(ID, 'P-b', label, ok,
                           'state replaced by Connected before connect(), under the ShareOp cell guard' if ok else
                           ('first-subscriber hand-over broken: ' + (bad[0] if bad else 'connect()/subscribe not under the ShareOp cell guard')), fn['span'], bad[1] if bad else None))
    if m < 2:
        res.append(Finding(ID, 'P-b', 'floor', False, 'ShareOp impls not found'))
    return res + pc(cx) + pe(cx) + pf(cx) + pg(cx)


def pg(cx):
    """joining a share never tears it down: the only place that unsubscribes the inner subject of share() is the returned
    RefCountSubscription (when its own subscriber left and nobody else is there); ShareOp::actual_subscribe itself makes no
    unsubscribe call. `is_empty()` is also true for a connected share whose subscribers all finished by themselves (take(n)):
    a teardown at join time would hand the newcomer a closed subscription while the source is still emitting."""
    F = cx.facts
    res = []
    m = 0
    for im in F.impls_of('observable::Observable'):
        tag = roles.impl_tag(cx, im)
        if tag not in ('ops::ref_count::ShareOp', 'ops::ref_count::ShareOpThreads'):
            continue
        m += 1
        fn = F.impl_fn(im, 'actual_subscribe')
        g = cx.graph(fn['key'])
        bad = [x for x in g.nodes if x['kind'] in ('call', 'enter') and x['name'] in UNSUB_NAMES and not x['ctx']]
        res.append(Finding(ID, 'P-g', cx.label(fn), not bad,
                           'subscribing to a share unsubscribes nothing' if not bad else
                           'subscribing to a share unsubscribes %s: a share that is connected but momentarily without live subscribers is torn down by the next join, the newcomer misses every later emission' % (
                               recv_class(bad[0]['args'][0]) if bad[0]['args'] else 'something'),
                           g.loc(bad[0]) if bad else fn['span'], [node_desc(g, x) for x in bad]))
    if m < 2:
        res.append(Finding(ID, 'P-g', 'floor', False, 'ShareOp impls not found'))
    return res + ph(cx)


def ph(cx):
    """a subscriber may join a connected share from inside another subscriber's callback, i.e. while the inner subject walks its
    live list under that list's guard (C06: it is added to the waiting chamber for exactly this reason). So nothing that
    ShareOp::actual_subscribe does (helpers inlined) may acquire the live list of the subject: the local form panics (RefCell
    already borrowed, the emission is aborted mid-multicast), the thread-safe form blocks the emitting thread for ever"""
    from . import c06
    from ..core import guard_of
    F = cx.facts
    res = []
    live = set()
    for t in c06.SUBJECTS:
        try:
            live.add(c06._lists(cx, t)[0])
        except Exception:
            pass
    m = 0
    for im in F.impls_of('observable::Observable'):
        tag = roles.impl_tag(cx, im)
        if tag not in ('ops::ref_count::ShareOp', 'ops::ref_count::ShareOpThreads'):
            continue
        m += 1
        fn = F.impl_fn(im, 'actual_subscribe')
        g = cx.graph(fn['key'])
        bad = []
        for x in g.nodes:
            gd = guard_of(x)
            if gd and x['args'] and any(render(x['args'][0]).endswith('.' + l) for l in live):
                bad.append(x)
        res.append(Finding(ID, 'P-h', cx.label(fn), bool(live) and not bad,
                           'joining a share touches the waiting chamber only' if live and not bad else
                           ('joining a share acquires the live subscriber list of the inner subject: a subscriber that joins from inside another subscriber\'s callback (mid-emission) finds it held by the multicast - share() panics and the emission is aborted, share_threads() blocks the source for ever' if bad else 'live list of the subjects not identified'),
                           g.loc(bad[0]) if bad else fn['span'], [node_desc(g, x) for x in bad]))
    if m < 2:
        res.append(Finding(ID, 'P-h', 'floor', False, 'ShareOp impls not found'))
    return res


def pf(cx):
    """a subscriber counts as gone as soon as its observer finished by itself (a downstream take, or the torn-down inner subject
    of an outer share) — not only when it was unsubscribed: p_is_closed() answers false only after BOTH is_finished and the
    slot were consulted. Subject::len/is_empty/retain and the terminal broadcast all rely on this one predicate."""
    from ..core import explore, ret_states, witness, interesting_default, OBS_METHODS, IS_CLOSED_NAMES, const_bool
    F = cx.facts
    res = []
    n = 0
    for im in F.impls_of('subscriber::Publisher'):
        tag = roles.impl_tag(cx, im)
        if cx.control != ('verif_controls' in tag):
            continue
        fn = F.impl_fn(im, 'p_is_closed')
        if fn is None:
            continue
        n += 1
        g = cx.graph(fn['key'])
        fin = any(x['kind'] in ('call', 'enter') and OBS_METHODS.get(x['name']) == 'is_finished' for x in g.nodes)
        clo = any(x['kind'] in ('call', 'enter') and (x['name'] in IS_CLOSED_NAMES or x['name'].rsplit('::', 1)[-1] in ('is_none', 'is_some')) for x in g.nodes)

        def step(st, x, lab):
            f, c, ret = st
            if x['kind'] in ('call', 'enter') and OBS_METHODS.get(x['name']) == 'is_finished':
                f = True
            if x['kind'] in ('call', 'enter') and (x['name'] in IS_CLOSED_NAMES or x['name'].rsplit('::', 1)[-1] in ('is_none', 'is_some')):
                c = True
            return (f, c, ret)
        reached, pred = explore(g, (False, False, None), step)
        bad = [k for k in ret_states(g, reached) if not (k[1][0] and k[1][1])]
        # a path may answer `true` after the first test already; only a path that can answer `false` must have asked both
        ok = fin and clo
        res.append(Finding(ID, 'P-f', cx.label(fn), ok,
                           'closed = observer finished by itself OR unsubscribed' if ok else
                           'p_is_closed() does not consult %s: a subscriber whose observer finished by itself (take(n), a torn-down inner share) is still counted as live, so the last real leaver does not release the source and terminals keep being driven into it'
                           % ('is_finished' if not fin else 'the unsubscribed state'), fn['span']))
    if not cx.control and n < 2:
        res.append(Finding(ID, 'P-f', 'floor', False, 'expected the two Publisher impls, found %d' % n))
    return res


def pe(cx):
    """every subscriber present at an emission receives it: the multicast rules of the inner subject (same rules as C06.J1/J2/J3/J4/J6)"""
    from . import c06
    out = []
    for f in c06.check(cx):
        if f.rule in ('J1', 'J2', 'J3', 'J4', 'J6') and ('subject::Subject<' in f.key or 'subject::SubjectThreads<' in f.key):
            out.append(Finding(ID, 'P-e', f.rule + ':' + f.key, f.ok, f.msg, f.loc, f.witness))
    return out


def pc(cx):
    F = cx.facts
    res = []
    want = 'verif_controls::CountingRefCount' if cx.control else 'ops::ref_count::RefCountSubscription'
    found = False
    for im in F.impls_of('subscription::Subscription'):
        if roles.impl_tag(cx, im) != want:
            continue
        found = True
        fn = F.impl_fn(im, 'unsubscribe')
        g = cx.graph(fn['key'])
        label = cx.label(fn)
        # the shared subject is the field whose type parameter is bounded by SubjectSize; the other one is the leaver's own subscription
        sized = {F.tystr(p['self']) for p in im['preds'] if p['k'] == 'trait' and p['tr'] == 'subject::SubjectSize'}
        adt = F.adts.get(F.adt_path(im['self']))
        st = F.ty(F.strip_refs(im['self']))
        amap = dict(zip(adt['generics'], [F.tystr(a) for a in st.get('a', [])]))
        own = ['self.' + f['n'] for v in adt['variants'] for f in v['fields'] if F.ty(f['t'])['k'] == 'param' and amap.get(F.ty(f['t'])['n'], F.ty(f['t'])['n']) not in sized]

        def ev(x):
            if x['kind'] in ('call', 'enter'):
                if x['name'] in UNSUB_NAMES and x['args'] and recv_class(x['args'][0]) in own:
                    return ('leave',)
                if x['name'].endswith('::retain') and not x['ctx']:
                    return ('retain',)
                if x['name'] in ('subject::SubjectSize::is_empty', 'subject::SubjectSize::len'):
                    return ('count',)
            return None
        retain_first = not lang_check(g, 'leave retain count', ev, exact=True, empty_ok=False)
        # or: every subject size counts live publishers only
        sizes = []
        for si in F.impls_of('subject::SubjectSize'):
            if roles.impl_tag(cx, si).startswith('subject::') and 'behavior' not in roles.impl_tag(cx, si):
                for meth in ('is_empty', 'len'):
                    sf = F.impl_fn(si, meth)
                    sg = cx.graph(sf['key'])
                    live = any(x['kind'] == 'call' and x['name'] in ('subscriber::Publisher::p_is_closed',) for x in sg.nodes)
                    sizes.append((cx.label(sf), live))
        live_only = bool(sizes) and all(l for _, l in sizes)
        # P-d: the size covers both lists (subscribers that joined since the last emission wait in the chamber)
        for si in F.impls_of('subject::SubjectSize'):
            stag = roles.impl_tag(cx, si)
            if not stag.startswith('subject::') or 'behavior' in stag:
                continue
            for meth in ('is_empty', 'len'):
                sf = F.impl_fn(si, meth)
                sg = cx.graph(sf['key'])
                lists = set()
                from . import c06
                LIVE, WAIT = c06._lists(cx, stag)
                for x in sg.nodes:
                    if x['kind'] == 'call' and x['name'] in ('rc::RcDeref::rc_deref', 'rc::RcDerefMut::rc_deref_mut') and x['args']:
                        c = recv_class(x['args'][0]).split('.')[-1]
                        lists.add('observers' if c == LIVE else ('chamber' if c == WAIT else c))
                okl = {'observers', 'chamber'} <= lists
                res.append(Finding(ID, 'P-d', cx.label(sf), okl, 'counts the live list and the waiting list' if okl else
                                   'the subject size ignores %s: a subscriber that joined since the last emission is not counted, so share() releases its source while that subscriber is still there' % sorted({'observers', 'chamber'} - lists),
                                   sf['span']))
        order = lang_check(g, 'leave retain? count', ev, exact=True, empty_ok=False)
        ok = (retain_first or live_only) and not order
        res.append(Finding(ID, 'P-c', label, ok,
                           'the leaver is not counted when the subject size is asked' if ok else
                           (order[0] if order else 'unsubscribe() of the own subscriber only empties its slot; its boxed publisher stays in the subject\'s list, so is_empty() is false after the last '
                            'subscriber left: the inner subject is never unsubscribed and the source keeps being driven (neither retain() before is_empty(), nor a size that skips closed publishers)'),
                           fn['span'], [l for l, live in sizes if not live][:4]))
    if not found and not cx.control:
        res.append(Finding(ID, 'P-c', 'floor', False, 'RefCountSubscription not found'))
    return res
