"""C17 — is_closed() soundness and late additions to composites (DESIGN §3 C17)."""
from ..core import (Finding, explore, witness, ret_states, recv_class, sw_value, const_bool, interesting_default,
                    UNSUB_NAMES, IS_CLOSED_NAMES, mentions, node_desc, lang_check)
from ..expr import strip, render, access_path
from .. import roles

ID = 'C17'
LEVEL = 'other'
EXPLANATION = ('Static rules over every Subscription impl: K1 a composite answers is_closed() conjunctively — every part that unsubscribe() '
               'tears down is asked, and true is returned only when all of them answered true; K2 append() on an already unsubscribed '
               'composite unsubscribes the late addition instead of dropping it; K4 unsubscribe() empties the closed-means-None slot on every path (precondition of K2 and of "any remaining handle reports closed"); K5 task handles: the task body runs under the handle cell, so unsubscribe()/is_closed() cannot overtake a running body (same rule as C19.H3); K6 a part leaves a MultiSubscription only through unsubscribe() (or when it is an empty slot / already closed): no other method takes, pops, removes or clears live parts, otherwise is_closed() turns true and unsubscribe() returns while that part still runs; K9 a task handle reports closed only once its value was produced / the produced subscription is closed (same rule as C19.H5); K8 is_closed() of every Subscription impl is a pure read (shared guards only, no effect); K7 every task an operator schedules is registered with the subscription it handed back (same rule as C02.U1), otherwise is_closed() is true while the task is still to run; K3 the cells whose emptiness means "closed" are never '
               're-filled after construction and keep_running is only ever cleared (no resurrection: true never reverts to false). '
               'Decides the per-type protocol; does not decide history-level monotonicity of MultiSubscription::is_closed across appends.')
ASSUMPTIONS = ['a subscription type outside the crate (user-defined) follows the same contract']

# parts that unsubscribe() touches but is_closed() legitimately does not ask, keyed by impl tag
K1_EXEMPT_PARTS = {
    ('ops::ref_count::RefCountSubscription', 'self.subject'): 'the inner subject is shared by all subscribers of share(); it is released by the last leaver, it is not a part of this subscription',
}


def k1_exempt(cx, im, part):
    """is `part` ('self.<field>') of this Subscription impl the shared, ref-counted hub of share()? Recognised by role, not by name:
    the impl is RefCountSubscription's and the field's type parameter is the one bounded by SubjectSize"""
    F = cx.facts
    tag = roles.impl_tag(cx, im)
    if (tag, part) in K1_EXEMPT_PARTS:
        return True
    if tag != 'ops::ref_count::RefCountSubscription':
        return False
    sized = {F.tystr(p['self']) for p in im['preds'] if p['k'] == 'trait' and p['tr'] == 'subject::SubjectSize'}
    adt = F.adts.get(tag)
    if not adt or not sized:
        return False
    st = F.ty(F.strip_refs(im['self']))
    amap = dict(zip(adt['generics'], [F.tystr(a) for a in st.get('a', [])]))
    for v in adt['variants']:
        for f in v['fields']:
            ft = F.ty(f['t'])
            if 'self.' + f['n'] == part and ft['k'] == 'param' and amap.get(ft['n'], ft['n']) in sized:
                return True
    return False


# impls that answer from an Option slot being empty (true only after unsubscribe took the part)
K1_SLOT_ANSWER = {
    '_': 'blanket impl for MutRc|MutArc<Option<S>>-like cells: is_closed = slot is None',
    'scheduler::TaskHandle': 'task handle: closed = value present / produced subscription closed (C19.H5)',
}
CLOSED_CELLS = ['subscriber::Subscriber', 'subscriber::SubscriberThreads', 'subject::Subject', 'subject::SubjectThreads',
                'subject::MutRefItemSubject', 'subject::MutRefErrSubject', 'subject::MutRefItemErrSubject',
                'subscription::MultiSubscription', 'subscription::MultiSubscriptionThreads']

CONTROLS = [
    'K1|<verif_controls::OneSidedPair<A, B> as Subscription>::is_closed',
    'K1|<verif_controls::OrPair<A, B> as Subscription>::is_closed',
    'K2|verif_controls::LeakyMulti::append',
    'K3|<verif_controls::Reopenable<O>>::reopen',
    'K4|<verif_controls::LazyMulti as Subscription>::unsubscribe',
    'K6|<verif_controls::ForgetfulMulti>::release',
    'K6|<verif_controls::ForgetfulMulti>::forget_last',
    'K6|<verif_controls::ForgetfulMulti>::keep_even',
]
CONTROLS_OK = ['K1|<verif_controls::GoodPair<A, B> as Subscription>::is_closed', 'K6|<verif_controls::ForgetfulMulti>::prune']


def check(cx):
    return k1(cx) + k2(cx) + k3(cx) + k4(cx) + k5(cx) + k6(cx) + k7(cx) + k8(cx) + k9(cx)


def _parts(g, names):
    out = {}
    for n in g.nodes:
        if n['kind'] == 'call' and n['name'] in names and n['args']:
            out.setdefault(recv_class(n['args'][0]), []).append(n)
    return out


def k1(cx):
    F = cx.facts
    res = []
    n_comp = 0
    for im in sorted(F.impls_of('subscription::Subscription'), key=lambda i: (i['file'], i['line'], i['self_s'])):
        fu = F.impl_fn(im, 'unsubscribe')
        fc = F.impl_fn(im, 'is_closed')
        if fu is None or fc is None:
            continue
        tag = roles.impl_tag(cx, im)
        label = cx.label(fc)
        gu = cx.graph(fu['key'], forward=True)
        gc = cx.graph(fc['key'], forward=True)
        pu = _parts(gu, UNSUB_NAMES)
        pc = _parts(gc, IS_CLOSED_NAMES)
        parts = [p for p in pu if not k1_exempt(cx, im, p)]
        if not parts:
            continue
        if tag in K1_SLOT_ANSWER and not pc:
            res.append(Finding(ID, 'K1', label, True, 'answers from its own slot: ' + K1_SLOT_ANSWER[tag], fc['span']))
            continue
        n_comp += 1
        missing = [p for p in parts if p not in pc]
        if missing:
            res.append(Finding(ID, 'K1', label, False,
                               'is_closed() never asks %s although unsubscribe() tears it down: it can answer true while that part still delivers' % ', '.join(sorted(missing)),
                               fc['span'], [node_desc(gu, pu[missing[0]][0])]))
            continue
        # conjunctive: a path may return without having asked every part only after an is_closed answered false
        allp = frozenset(parts)
        # collection parts asked for every element through Iterator::all (and Option::map_or(true, ..)) count as asked
        quantified = set()
        for p in parts:
            vs = [gc.vias(n) for n in pc.get(p, [])]
            if vs and all(v and 'std::iter::Iterator::all' in v and all(x in ('std::iter::Iterator::all', 'std::option::Option::map_or', 'std::option::Option::is_none_or') for x in v) for v in vs):
                dflt_ok = True
                for n in gc.nodes:
                    if n['kind'] == 'call' and n['name'] == 'std::option::Option::map_or' and const_bool(n['args'][1]) is not True:
                        dflt_ok = False
                if dflt_ok:
                    quantified.add(p)
        allp = frozenset(p for p in parts if p not in quantified)
        isclosed_vals = {}
        for p, ns in pc.items():
            for n in ns:
                isclosed_vals[n['value']] = p

        def step(st, n, lab):
            asked, short = st
            d, v = sw_value(lab)
            if d is not None and v == 0:
                for val in isclosed_vals:
                    if mentions(d, lambda x: x == val):
                        short = True
                dd = strip(d)
                if dd[0] == 'discr':
                    short = True  # empty slot / no element: nothing left to ask
            if n['kind'] == 'call' and n['name'] in IS_CLOSED_NAMES and n['args']:
                asked = asked | {recv_class(n['args'][0])}
            if n['kind'] == 'assign' and not n['ctx'] and n['lhs'][0] == 'local' and n['lhs'][1] == 0 and const_bool(n['rhs']) is False:
                short = True  # answers false: always sound
            return (asked, short)

        reached, pred = explore(gc, (frozenset(), False), step)
        bad = [(nid, st) for nid, st in ret_states(gc, reached) if not st[1] and not allp <= st[0]]
        if bad:
            nid, st = bad[0]
            res.append(Finding(ID, 'K1', label, False,
                               'a path returns without all parts having answered true (asked %s of %s): the parts are not combined with &&' % (sorted(st[0]), sorted(allp)),
                               fc['span'], witness(gc, pred, (nid, st), interesting_default)))
        else:
            res.append(Finding(ID, 'K1', label, True, 'asks every part (%s) and short-circuits only on false' % ', '.join(sorted(allp)), fc['span']))
    if not cx.control and n_comp < roles.FLOORS['C17.K1.composites']:
        res.append(Finding(ID, 'K1', 'floor', False, 'only %d composite subscriptions found, expected >= %d' % (n_comp, roles.FLOORS['C17.K1.composites'])))
    return res


def k2(cx):
    F = cx.facts
    res = []
    n = 0
    for fn in F.fns.values():
        if fn.get('name') != 'append' or fn['kind'] != 'assoc_fn':
            continue
        im = F.impl_of_fn(fn)
        if im is None or im.get('trait'):
            continue
        tag = roles.impl_tag(cx, im)
        if 'Multi' not in tag:
            continue
        n += 1
        label = '%s::append' % tag
        g = cx.graph(fn['key'])
        arg = ('arg', 2, g.facts.fns[fn['key']].get('dbg') and 'v' or 'v')

        def is_arg(e):
            return mentions(e, lambda x: x[0] == 'arg' and x[1] == 2)

        def ev(nd):
            if nd['kind'] == 'call' and nd['name'].endswith('::push') and any(is_arg(a) for a in nd['args'][1:]):
                return ('keep',)
            if nd['kind'] in ('call', 'enter') and not nd['ctx'] and nd['name'] in UNSUB_NAMES and nd['args'] and is_arg(nd['args'][0]):
                return ('unsub',)
            return None
        bad = lang_check(g, 'keep | unsub', ev, exact=True, empty_ok=False)
        if bad:
            res.append(Finding(ID, 'K2', label, False,
                               'a subscription appended to an already unsubscribed composite is dropped without being unsubscribed (it keeps running): ' + bad[0],
                               fn['span'], bad[1]))
        else:
            res.append(Finding(ID, 'K2', label, True, 'late addition is either stored or unsubscribed on every path', fn['span']))
    if not cx.control and n < 2:
        res.append(Finding(ID, 'K2', 'floor', False, 'expected the two MultiSubscription*::append bodies, found %d' % n))
    return res


def k3(cx):
    """no resurrection: Option cells whose None means closed are only assigned None / taken after construction"""
    F = cx.facts
    res = []
    tags = set(CLOSED_CELLS)
    n = 0
    for fn in sorted(F.fns.values(), key=lambda f: f['key']):
        if fn['kind'] != 'assoc_fn':
            continue
        im = F.impl_of_fn(fn)
        if im is None:
            continue
        tag = roles.impl_tag(cx, im)
        if tag not in tags and not (cx.control and tag.startswith('verif_controls::Reopenable')):
            continue
        g = cx.graph(fn['key'], inline=False)
        label = cx.label(fn)
        bad = None
        for nd in g.nodes:
            if nd['kind'] == 'assign':
                root, steps = access_path(nd['lhs'])
                if '@' in steps and root[0] == 'arg' and not _is_none(nd['rhs']):
                    # writing through the guard of a self cell
                    if steps[-1] == '@' or steps[-1].startswith('as '):
                        bad = nd
            elif nd['kind'] == 'call' and nd['name'] in ('std::option::Option::insert', 'std::option::Option::replace', 'std::option::Option::get_or_insert',
                                                         'std::option::Option::get_or_insert_with', 'std::mem::replace', 'std::mem::swap') and nd['args']:
                root, steps = access_path(nd['args'][0])
                if steps and steps[-1] == '@' and root[0] == 'arg':
                    if not (nd['name'] == 'std::mem::replace' and len(nd['args']) > 1 and _is_none(nd['args'][1])):
                        bad = nd
        n += 1
        if bad is not None:
            res.append(Finding(ID, 'K3', label, False, 'a closed (None) cell is filled again: is_closed() could revert from true to false', g.loc(bad), [node_desc(g, bad)]))
        else:
            res.append(Finding(ID, 'K3', label, True, 'never re-fills the cell', fn['span']))
    # keep_running is only cleared; value = Some only in Remote::poll
    from . import c19
    FLAG, _v = c19._handle_fields(cx)
    for fn in sorted(F.fns.values(), key=lambda f: f['key']):
        if 'scheduler' not in fn['key']:
            continue
        g = cx.graph(fn['key'], inline=False)
        for nd in g.nodes:
            if nd['kind'] != 'assign':
                continue
            root, steps = access_path(nd['lhs'])
            if steps and steps[-1] == FLAG:
                n += 1
                ok = const_bool(nd['rhs']) is False
                res.append(Finding(ID, 'K3', cx.label(fn) + '|keep_running', ok, 'keep_running only ever written false' if ok else 'keep_running is set again after construction: a cancelled task could run', g.loc(nd)))
            if steps and steps[-1] == 'value' and 'HandleInfo' in F.tystr(fn['locals'][0]['t'] if False else nd.get('lhs_ty') or 0) + render(nd['lhs']):
                pass
    if not cx.control and n < roles.FLOORS['C17.K3.bodies']:
        res.append(Finding(ID, 'K3', 'floor', False, 'only %d bodies inspected, expected >= %d' % (n, roles.FLOORS['C17.K3.bodies'])))
    return res


def _is_none(e):
    e = strip(e)
    return e[0] == 'agg' and e[2].endswith('Option::None')


def thorough():
    from ..witness import run_witnesses
    return run_witnesses(ID, ['w4'])


K4_TAGS = {'subscription::MultiSubscription': 'self.0', 'subscription::MultiSubscriptionThreads': 'self.0',
           'subscriber::Subscriber': 'self.0', 'subscriber::SubscriberThreads': 'self.0', '_': 'self'}


def k4(cx):
    """unsubscribe() empties the slot whose emptiness means 'closed' on EVERY path: only then do other handles report
    closed and only then is a late addition torn down by append() (K2 relies on the slot being None)"""
    from ..core import TAKE
    F = cx.facts
    res = []
    n = 0
    for im in F.impls_of('subscription::Subscription'):
        tag = roles.impl_tag(cx, im)
        cls = K4_TAGS.get(tag)
        if cls == 'self.0':
            # the slot is the (only) shared-cell field of the type, whatever it is called
            cls = 'self.' + roles.field_where(cx, tag, lambda t, ti: t['k'] == 'adt' and t['p'] in ('rc::MutRc', 'rc::MutArc'), 'slot')
        if cx.control:
            cls = 'self.0' if tag == 'verif_controls::LazyMulti' else None
        if cls is None:
            continue
        n += 1
        fn = F.impl_fn(im, 'unsubscribe')
        g = cx.graph(fn['key'])

        def ev(x):
            if x['kind'] == 'call' and x['name'] in TAKE and x['args'] and recv_class(x['args'][0]) == cls:
                return ('take',)
            return None
        bad = lang_check(g, 'take', ev, exact=True, empty_ok=False)
        res.append(Finding(ID, 'K4', cx.label(fn), not bad,
                           'empties its slot on every path' if not bad else
                           'unsubscribe() can return without emptying the slot: remaining handles keep reporting the old state and a subscription appended later is kept running instead of being torn down',
                           fn['span'], bad[1] if bad else None))
    if not cx.control and n < 5:
        res.append(Finding(ID, 'K4', 'floor', False, 'expected 5 slot-based subscriptions, found %d' % n))
    return res


def k5(cx):
    """a task handle that reports closed / has been unsubscribed delivers nothing more: cancellation is atomic with running
    (same rule as C19.H3)"""
    from . import c19
    out = []
    for f in c19.h3(cx):
        if cx.control:
            continue
        out.append(Finding(ID, 'K5', f.key, f.ok, f.msg, f.loc, f.witness))
    return out


COMPOSITES = ['subscription::MultiSubscription', 'subscription::MultiSubscriptionThreads']
_REMOVERS = ('remove', 'pop', 'swap_remove', 'clear', 'truncate', 'drain', 'split_off', 'pop_front', 'pop_back')


def k6(cx):
    """parts of a composite are only let go by unsubscribe(): in every other method no live part may be taken out of,
    popped / removed from, or cleared out of the parts list (dropping a subscription handle does not cancel it)"""
    from ..core import TAKE
    F = cx.facts
    res = []
    n = 0
    tags = ['verif_controls::ForgetfulMulti'] if cx.control else COMPOSITES
    for fn in sorted(F.fns.values(), key=lambda f: f['key']):
        if fn['kind'] in ('closure', 'coroutine'):
            continue
        im = F.impl_of_fn(fn)
        if im is None or roles.impl_tag(cx, im) not in tags:
            continue
        if im.get('trait') == 'subscription::Subscription' and fn.get('name') == 'unsubscribe':
            continue
        if im.get('trait') and im.get('trait') != 'subscription::Subscription':
            continue
        n += 1
        g = cx.graph(fn['key'])
        bad = None
        self_rooted = lambda e: mentions(e, lambda x: x[0] == 'arg' and x[1] == 1)
        for x in g.nodes:
            if x['kind'] != 'call' or not x['args']:
                continue
            a0 = x['args'][0]
            tail = x['name'].rsplit('::', 1)[-1]
            if x['name'] in TAKE and self_rooted(a0):
                root, steps = access_path(a0)
                whole_cell = root[0] == 'arg' and root[1] == 1 and steps and steps[-1] == '@' and all(not st.startswith(('@', '!', 'as ', '[')) for st in steps[:-1])
                if not whole_cell:
                    bad = (x, 'takes a part out of its slot and drops it')
            elif tail in _REMOVERS and x['name'].startswith(('std::vec::Vec', 'smallvec::SmallVec', 'std::collections::VecDeque')) and self_rooted(a0):
                bad = (x, 'removes parts with %s()' % tail)
            elif tail in ('retain', 'retain_mut') and self_rooted(a0):
                why = _retain_drops_live(cx, g, x)
                if why:
                    bad = (x, why)
            if bad:
                break
        label = cx.label(fn)
        if bad:
            res.append(Finding(ID, 'K6', label, False,
                               '%s without unsubscribing them: the composite then reports closed and its unsubscribe() returns while that part (e.g. a scheduled task) is still alive and will deliver' % bad[1],
                               g.loc(bad[0]), [node_desc(g, bad[0])]))
        else:
            res.append(Finding(ID, 'K6', label, True, 'lets go of no live part', fn['span']))
    if not cx.control and n < 8:
        res.append(Finding(ID, 'K6', 'floor', False, 'expected the methods of the two MultiSubscription types, found %d' % n))
    return res


def _retain_drops_live(cx, g, call):
    """reason if the retain predicate can answer a constant false for an element it has not shown to be empty / closed"""
    F = cx.facts
    for a, aty in zip(call['args'], call.get('arg_tys') or []):
        if aty is None:
            continue
        from ..graph import _closure_def_of_type
        cd = _closure_def_of_type(F, aty)
        if not cd or cd not in F.fns:
            continue
        cg = cx.graph(cd, inline=False)

        def step(st, nd, lab):
            d, v = sw_value(lab)
            if d is not None:
                dd = strip(d)
                neg = 0
                while dd[0] == 'un' and dd[1] == 'Not':
                    dd = strip(dd[2])
                    neg ^= 1
                if dd[0] == 'discr' and v == 0:
                    st = 'justified'
                if dd[0] == 'call' and dd[1].endswith(('is_some',)) and (v ^ neg) == 0:
                    st = 'justified'
                if dd[0] == 'call' and (dd[1] in IS_CLOSED_NAMES or dd[1].endswith(('is_none', 'is_closed'))) and (v ^ neg) == 1:
                    st = 'justified'
            if nd['kind'] == 'assign' and nd['lhs'][0] == 'local' and nd['lhs'][1] == 0 and const_bool(nd['rhs']) is False and st != 'justified':
                return 'BAD'
            return st
        reached, pred = explore(cg, 'start', step)
        if any(k[1] == 'BAD' for k in reached):
            return 'retain() drops parts its predicate has not shown to be empty or closed'
    return None


def k7(cx):
    """every task handle / inner subscription produced while the operator runs reaches the subscription handed back to the
    caller (same rule as C02.U1): otherwise is_closed() answers true, and unsubscribe() returns, with that task still to run"""
    from . import c02
    out = []
    for f in c02.u1(cx):
        if cx.control:
            continue
        out.append(Finding(ID, 'K7', f.key, f.ok, f.msg, f.loc, f.witness))
    return out


def k8(cx):
    if cx.control:
        return []
    from . import c03
    F = cx.facts
    fns = [F.impl_fn(im, 'is_closed') for im in F.impls_of('subscription::Subscription')]
    out = c03.query_findings(cx, [f for f in fns if f is not None], ID, 'K8', 'is_closed()')
    if len(out) < 15:
        out.append(Finding(ID, 'K8', 'floor', False, 'only %d is_closed() implementations found' % len(out)))
    return out


def k9(cx):
    """a task handle answers closed only when its task can no longer act (same rule as C19.H5): a subscription task that is still
    queued or waiting for its timer has produced no value yet and is not closed"""
    if cx.control:
        return []
    from . import c19
    return [Finding(ID, 'K9', f.key, f.ok, f.msg, f.loc, f.witness) for f in c19.h5(cx)]
