"""C01 — items, then at most one terminal, then nothing (DESIGN §3 C01)."""
from ..core import (Finding, down_method, node_desc, recv_class)
from ..expr import access_path, strip, render
from .. import roles

ID = 'C01'
LEVEL = 'proof'
EXPLANATION = ('Proof by typing with side conditions. Observer::error/complete take the observer by value, so a subscriber that is not duplicated '
               'can be sent at most one terminal and nothing after it, for every pipeline, input and interleaving. Obligations: P1 the terminal '
               'methods of Observer/BoxObserverInner/Publisher consume their receiver; P2 the library never clones a value whose type '
               'contains (outside an Rc/Arc/MutRc/MutArc handle) a type parameter bounded by Observer — the two tabled sites clone a '
               'parameter that is only ever instantiated with handle types (P2\'); P3 every shared handle to an observer keeps it in an '
               'Option slot: terminals reach the downstream only through take(), items only through a borrowed slot; P4 the crate has no '
               'unsafe code other than the two marker impls on TypeHint; P5 (thorough tier) compile-fail witness W1. All obligations must '
               'be discharged. Does not claim that a terminal is delivered (liveness) or that it is the right one (C03/C04).')
ASSUMPTIONS = ['Rust move semantics and borrow checking (rustc type-checks the crate on every run)']
TECHNIQUE = 'static analysis: typestate-by-ownership argument; signature, who-may-clone and slot-discipline rules over type-checked MIR; compile-fail witness'

HANDLES_OK = ('std::rc::Rc', 'std::sync::Arc', 'rc::MutRc', 'rc::MutArc')
# clone sites of an Observer-bounded parameter, with the obligation that keeps them sound
# (keyed by the type whose methods clone it: the justification is about how that type's parameter is instantiated,
# not about which of its methods or private helpers contains the clone)
P2_TABLE = {
    'ops::take_until::TakeUntilNotifierObserver': ('adt', 'ops::take_until::TakeUntilNotifierObserver', 2),
    'ops::group_by::GroupByObserver': ('groupby', None, None),
}
CONTROLS = ['P2|<verif_controls::CompleteInNext as Observer>::next', 'P2|<verif_controls::HelperCloner as Observer>::next', 'P3|<rc::MutRc<verif_controls::PeekShared<O>> as Observer>::error',
            'P4|unsafe block in verif_controls']


def check(cx):
    return p1(cx) + p2(cx) + p3(cx) + p4(cx)


def p1(cx):
    F = cx.facts
    res = []
    if cx.control:
        return res
    want = {
        'observer::Observer': {'error': 'self', 'complete': 'self'},
        'observer::BoxObserverInner': {'box_error': 'box', 'box_complete': 'box'},
        'subscriber::Publisher': {'p_error': 'box', 'p_complete': 'box', 'p_unsubscribe': 'box'},
    }
    for trp, ms in want.items():
        tr = F.traits.get(trp)
        for mn, mode in ms.items():
            m = [x for x in (tr['methods'] if tr else []) if x['n'] == mn]
            if not m:
                res.append(Finding(ID, 'P1', '%s::%s' % (trp, mn), False, 'method not found'))
                continue
            t = F.ty(m[0]['inputs'][0])
            ok = (mode == 'self' and t['k'] == 'param' and t['n'] == 'Self') or (mode == 'box' and t['k'] == 'adt' and t['p'] == 'std::boxed::Box')
            res.append(Finding(ID, 'P1', '%s::%s' % (trp, mn), ok, 'receiver %s (consumed)' % t['s'] if ok else 'terminal method no longer consumes its receiver (%s): an observer could be used after its terminal' % t['s']))
    return res


def _observer_params(fn):
    ps = set()
    for p in fn.get('preds', []):
        if p['k'] == 'trait' and p['tr'] == 'observer::Observer':
            ps.add(p['self'])
    return ps


_handle_cache = {}


def handle_adts(F):
    """local ADTs all of whose fields keep their type parameters behind shared handles
    (Subscriber, ShareObserver, Subject, ...): cloning one clones pointers, not observers"""
    k = id(F)
    if k in _handle_cache:
        return _handle_cache[k]
    hs = set()
    _handle_cache[k] = hs
    changed = True
    while changed:
        changed = False
        for p, a in F.adts.items():
            if p in hs:
                continue
            fields = [f for v in a['variants'] for f in v['fields']]
            if not fields:
                continue
            ok = True
            for f in fields:
                acc = set()
                _exposed_params(F, f['t'], acc)
                if acc:
                    ok = False
            if ok and any(F.mentions(f['t'], lambda x: x['k'] == 'adt' and x['p'] in HANDLES_OK) for f in fields):
                hs.add(p)
                changed = True
    return hs


def _exposed_params(F, ti, acc):
    """type parameters occurring in type ti outside a shared handle"""
    t = F.ty(ti)
    k = t['k']
    if k == 'param':
        acc.add(ti)
    elif k == 'adt':
        if t['p'] in HANDLES_OK or t['p'] == 'std::marker::PhantomData' or t['p'] in _handle_cache.get(id(F), ()):
            return
        for a in t.get('a', []):
            _exposed_params(F, a, acc)
    elif k in ('ref', 'ptr', 'array', 'slice'):
        _exposed_params(F, t['t'], acc)
    elif k == 'tuple':
        for a in t['a']:
            _exposed_params(F, a, acc)


def p2(cx):
    F = cx.facts
    res = []
    n_calls = 0
    sites = {}
    handle_adts(F)
    # generic parameters (by name) that a local function clones in exposed position, directly or through local callees:
    # a helper that clones its parameter T clones an observer wherever T is instantiated with one
    cloned = {}
    for fn in F.fns.values():
        own = set()
        for b in fn['blocks']:
            t = b['t']
            if t['k'] == 'call' and t['f']['o'] == 'const' and 'fn' in t['f']:
                c = t['f']['fn']
                if c.get('tr') == 'std::clone::Clone' and c.get('n') == 'clone' and c.get('a'):
                    acc = set()
                    _exposed_params(F, c['a'][0], acc)
                    own |= {F.ty(x)['n'] for x in acc}
        cloned[fn['key']] = own
    changed = True
    while changed:
        changed = False
        for fn in F.fns.values():
            for b in fn['blocks']:
                t = b['t']
                if t['k'] != 'call' or t['f']['o'] != 'const' or 'fn' not in t['f']:
                    continue
                r = t['f']['fn'].get('res')
                if not r or not r.get('local') or r.get('d') not in F.fns or not r.get('a'):
                    continue
                g = F.fns[r['d']]
                for q in cloned.get(g['key'], ()):
                    gens = g.get('generics') or []
                    if q in gens and gens.index(q) < len(r['a']):
                        acc = set()
                        _exposed_params(F, r['a'][gens.index(q)], acc)
                        names = {F.ty(x)['n'] for x in acc}
                        if not names <= cloned[fn['key']]:
                            cloned[fn['key']] |= names
                            changed = True
    for fn in sorted(F.fns.values(), key=lambda f: f['key']):
        root = F.fns.get(fn.get('root')) if fn.get('root') else fn
        if root is None:
            continue
        im = F.impl_of_fn(root)
        if im is not None and im.get('derived'):
            continue
        obs = _observer_params(root)
        if not obs:
            continue
        for b in fn['blocks']:
            t = b['t']
            if t['k'] != 'call' or t['f']['o'] != 'const' or 'fn' not in t['f']:
                continue
            c = t['f']['fn']
            r = c.get('res')
            if r and r.get('local') and r.get('d') in F.fns and r.get('a') and cloned.get(r['d']):
                g = F.fns[r['d']]
                gens = g.get('generics') or []
                for q in cloned[r['d']]:
                    if q in gens and gens.index(q) < len(r['a']):
                        acc = set()
                        _exposed_params(F, r['a'][gens.index(q)], acc)
                        hit = acc & obs
                        if hit:
                            owner = roles.impl_tag(cx, im) if im is not None else None
                            key = owner if owner in P2_TABLE else roles.stable_label(cx, root)
                            sites.setdefault(key, []).append((fn, t, [F.tystr(x) for x in hit]))
            if c.get('tr') != 'std::clone::Clone' or c.get('n') != 'clone' or not c.get('a'):
                continue
            n_calls += 1
            acc = set()
            _exposed_params(F, c['a'][0], acc)
            hit = acc & obs
            if hit:
                owner = roles.impl_tag(cx, im) if im is not None else None
                key = owner if owner in P2_TABLE else roles.stable_label(cx, root)
                sites.setdefault(key, []).append((fn, t, [F.tystr(x) for x in hit]))
    for label, ss in sorted(sites.items()):
        fn, t, ps = ss[0]
        tab = P2_TABLE.get(label)
        loc = '%s:%s' % (fn['file'], t['sp']['l'])
        if tab is None:
            res.append(Finding(ID, 'P2', label, False, 'an observer value (type parameter %s bounded by Observer, not behind a shared handle) is cloned: both copies can be sent a terminal' % ps, loc))
        else:
            ok, why = _p2_prime(cx, tab)
            res.append(Finding(ID, 'P2', label, ok, ('tabled clone of %s: ' % ps) + why, loc))
    if not cx.control:
        for label in P2_TABLE:
            if label not in sites:
                res.append(Finding(ID, 'P2', 'unused exemption:' + label, True, 'the tabled clone site no longer exists (the code stopped cloning the observer there): the exemption is unused, nothing to check'))
        res.append(Finding(ID, 'P2', 'clone calls inspected', n_calls >= 30, '%d Clone::clone call sites in functions with an Observer-bounded parameter inspected' % n_calls))
    return res


def _p2_prime(cx, tab):
    F = cx.facts
    kind, adt, idx = tab
    if kind == 'adt':
        # every construction of the struct instantiates parameter idx with a MutRc|MutArc<Option<_>> handle
        n = 0
        for fn in F.fns.values():
            for b in fn['blocks']:
                for s in b['s']:
                    if s['k'] == 'assign' and s['rv']['r'] == 'agg' and s['rv'].get('ak') == 'adt' and s['rv']['p'] == adt:
                        n += 1
                        a = s['rv']['a']
                        tag = roles.type_tag(F, a[idx]) if len(a) > idx else '?'
                        if tag == '_':
                            # built inside a generic constructor of the type itself (`fn watching(target: O) -> Self`): what counts is
                            # what the callers of that constructor instantiate the parameter with
                            im0 = F.impl_of_fn(fn)
                            if im0 is not None and not im0.get('trait') and roles.impl_tag(cx, im0) == adt:
                                ctags = []
                                for fn2 in F.fns.values():
                                    for b2 in fn2['blocks']:
                                        t2 = b2['t']
                                        if t2['k'] == 'call' and t2['f']['o'] == 'const' and 'fn' in t2['f']:
                                            r2 = t2['f']['fn'].get('res') or {}
                                            if r2.get('d') == fn['key'] or t2['f']['fn'].get('d') == fn['key']:
                                                a2 = t2['f']['fn'].get('a') or []
                                                ctags.append(roles.type_tag(F, a2[idx]) if len(a2) > idx else '?')
                                if ctags and all(c.startswith(('MutRc<Option<', 'MutArc<Option<')) for c in ctags):
                                    n += len(ctags) - 1
                                    continue
                                if ctags:
                                    tag = [c for c in ctags if not c.startswith(('MutRc<Option<', 'MutArc<Option<'))][0]
                        if not tag.startswith(('MutRc<Option<', 'MutArc<Option<')):
                            return False, '%s is constructed with O = %s in %s (not a shared Option handle)' % (adt.split('::')[-1], tag, cx.label(fn))
        if n < 2:
            return False, 'expected >= 2 construction sites of %s, found %d' % (adt, n)
        return True, 'all %d constructions instantiate it with a MutRc|MutArc<Option<_>> handle (P2\')' % n
    if kind == 'groupby':
        ims = [im for im in F.impls_of('observable::Observable') if roles.impl_tag(cx, im) == 'ops::group_by::GroupByOp']
        tags = sorted(roles.type_tag(F, F.ty(im['self'])['a'][2]) for im in ims)
        ok = tags == ['subject::Subject', 'subject::SubjectThreads']
        return ok, 'GroupByOp is Observable only with Subject = %s (handle types, P2\')' % tags
    return False, '?'


def p3(cx, items=False, prop=None, rule='P3'):
    """slot discipline of every shared handle to an observer. For C01 only the terminal clause matters (a terminal sent on an observer
    that stays in its slot can be followed by another one); the item clause (items=True: never deliver an item on an observer taken
    out of the slot) is a no-loss condition and is reported by C04.M9 / C05.F7 / C06"""
    res = []
    n = 0
    for im in cx.observer_impls():
        tag = roles.impl_tag(cx, im)
        shared = tag.startswith(('MutRc<', 'MutArc<')) or tag in ('subscriber::Subscriber', 'subscriber::SubscriberThreads','ops::merge_all::InnerObserver', 'ops::merge_all::InnerObserverThreads', 'ops::merge_all::OutsideObserver',
                                                                 'ops::merge_all::OutsideObserverThreads') or tag.startswith('subject::Subject') or tag.startswith('subject::MutRef')
        if not shared:
            continue
        n += 1
        for meth in ('next', 'error', 'complete'):
            fn = cx.method(im, meth)
            g = cx.graph(fn['key'], forward=True)
            label = cx.label(fn)
            bad = None
            for x in g.nodes:
                m = down_method(x)
                if m in ('error', 'complete') and '!take' not in access_path(x['args'][0])[1]:
                    bad = (x, 'a terminal is sent on an observer that stays in the shared slot')
                if items and m == 'next' and '!take' in access_path(x['args'][0])[1] and meth == 'next':
                    bad = (x, 'an item is delivered on an observer taken out of the slot: while it is out, the slot looks terminated and notifications of other inputs or threads are dropped')
            if bad:
                res.append(Finding(prop or ID, rule, label, False, bad[1], g.loc(bad[0]), [node_desc(g, bad[0])]))
            else:
                res.append(Finding(prop or ID, rule, label, True, 'terminals through take()' + (', items through the borrowed slot' if items else ''), fn['span']))
    if not cx.control and n < 17:
        res.append(Finding(prop or ID, rule, 'floor', False, 'only %d shared observer impls found, expected >= 17' % n))
    return res


def p4(cx):
    F = cx.facts
    res = []
    user = [u for u in F.unsafe_blocks if u['user'] and not any(e['m'] in ('pin_project', '__pin_project_internal', '__pin_project_make_proj_method', 'format_args', 'pin_project_lite::pin_project') or e['m'].startswith('__pin_project') for e in u.get('expn', []))]
    if cx.control:
        user = [u for u in user if 'verif_controls' in u['span']]
        if user:
            res.append(Finding(ID, 'P4', 'unsafe block in verif_controls', False, 'unsafe block', user[0]['span']))
        return res
    res.append(Finding(ID, 'P4', 'unsafe blocks', not user, 'no user-written unsafe block' if not user else 'unsafe block(s): %s' % [u['span'] for u in user[:3]], user[0]['span'] if user else ''))
    ufn = [f for f in F.fns.values() if f.get('unsafe') and not any(e['m'].startswith(('__pin_project', 'pin_project')) for e in f.get('expn', []))]
    res.append(Finding(ID, 'P4', 'unsafe fns', not ufn, 'no unsafe fn' if not ufn else 'unsafe fn(s): %s' % [f['path'] for f in ufn[:3]]))
    uimpl = sorted('%s for %s' % (i.get('trait'), i['self_s']) for i in F.impls.values() if i.get('unsafe') and not i.get('derived'))
    ok = all('type_hint::TypeHint' in x for x in uimpl) and len(uimpl) <= 2
    res.append(Finding(ID, 'P4', 'unsafe impls', ok, 'unsafe impls: %s' % uimpl))
    return res


def thorough():
    from ..witness import run_witnesses
    return run_witnesses(ID, ['w1'])
