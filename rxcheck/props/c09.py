"""C09 — rate-limiting operators never invent, duplicate or reorder items (DESIGN §3 C09)."""
from ..core import (Finding, explore, witness, ret_states, down_method, mentions, node_desc, recv_class, sw_value, interesting_default, TAKE,
                    SCHEDULE, const_bool, reachable)
from ..expr import access_path, strip, render, walk
from .. import roles

ID = 'C09'
LEVEL = 'other'
EXPLANATION = ('Static rules on debounce, throttle, sample and the buffers: R-a linear item flow — in next(), on any single feasible path the '
               'incoming item (or a clone) ends up in at most one emission sink (delivered downstream, or parked in the pending cell that is '
               'later flushed), a take() of that cell cancelling the parked copy; R-b every buffer emission is guarded by !is_empty(); R-c '
               'complete() flushes the pending content before completing; R-d timer tasks move the pending content out with take(), never '
               'clone it. Registration of the task handles is C02.U1. R-h window state (timer slot, candidate, buffer) is created per subscription, the operator values of debounce/throttle/sample/buffer carry no shared cell (same rule as C13.Z3); R-g buffers never exceed the count limit: the shared BufferWithCountObserver releases and empties its buffer exactly when its length reaches count (same rule as C03.S10); R-e debounce protocol (provenance dataflow): every item replaces the parked one, cancels the timer of its predecessor and arms a new one with the configured delay, whose handle is kept; R-f throttle protocol: an item goes out on the leading edge only together with opening a window, the item that went out is not also kept for the trailing edge, inside a window the newest item is parked, the window timer is armed with the selector\'s duration for that item and its handle kept. Does not decide '
               'order under same-instant events.')
TECHNIQUE = 'static analysis: linear item-flow rules and path-sensitive provenance dataflow (protocol of debounce/throttle) over MIR event graphs (custom rustc_private driver)'
ASSUMPTIONS = ['bool configuration fields that next() never writes have one value along a path (correlated branches are pruned)']

# observers that park items in a pending cell until a boundary; the cell itself is found by its type (see pending_field)
PENDING = ['ops::throttle::ThrottleObserver', 'ops::debounce::DebounceObserver', 'ops::sample::SourceObserver',
           'ops::buffer::BufferObserver', 'ops::buffer::BufferWithCountObserver']
FLUSH_ON_COMPLETE = ['ops::throttle::ThrottleObserver', 'ops::debounce::DebounceObserver', 'ops::sample::SampleObserver',
                     'ops::buffer::BufferObserver', 'ops::buffer::BufferWithCountObserver']
# operators whose scheduled one-shot task releases the pending item
TASK_OWNERS = ['ops::debounce::DebounceObserver', 'ops::throttle::ThrottleObserver']


def pending_field(cx, im, adt_path, depth=0):
    """name of the field that parks items: a MutRc|MutArc<Option<P>> with P a parameter that is not an observer, a parameter
    bounded by RcDerefMut (sample's value cell), a Vec<P>, or such a field one level down in a nested local struct"""
    from ..core import Incomplete
    F = cx.facts
    adt = F.adts.get(adt_path)
    if adt is None:
        raise Incomplete('unknown observer type ' + adt_path)
    st = F.ty(F.strip_refs(im['self']))
    amap = dict(zip(adt['generics'], [F.tystr(a) for a in st.get('a', [])])) if depth == 0 else {}
    bounds = {}
    for p in im['preds']:
        if p['k'] == 'trait':
            bounds.setdefault(F.tystr(p['self']), set()).add(p['tr'])

    def obs_param(t):
        return t['k'] == 'param' and 'observer::Observer' in bounds.get(amap.get(t['n'], t['n']), set())
    hits = []
    for n, ti in roles.adt_fields(cx, adt_path):
        t = F.ty(ti)
        if roles.is_cell_of(F, t, lambda o: roles.is_option_of(F, o, lambda x: x['k'] == 'param' and not obs_param(x))):
            hits.append(n)
        elif t['k'] == 'param' and bounds.get(amap.get(t['n'], t['n']), set()) & {'rc::RcDerefMut', 'rc::RcDeref'}:
            hits.append(n)
        elif t['k'] == 'adt' and t['p'] in ('std::vec::Vec', 'std::collections::VecDeque') and t['a'] and F.ty(t['a'][0])['k'] == 'param':
            hits.append(n)
        elif t['k'] == 'adt' and t['p'] in F.adts and depth == 0 and t['p'].startswith('ops::'):
            try:
                hits.append(pending_field(cx, im, t['p'], 1))
            except Incomplete:
                pass
    if len(hits) != 1:
        raise Incomplete('cannot identify the pending-item cell of %s by its type (candidates %s)' % (adt_path, hits))
    return hits[0]
CONTROLS = ['R-a|<verif_controls::DoubleEdge<O, Item> as Observer>::next', 'R-d|verif_controls::clone_task',
            'R-e|<verif_controls::NoCancelDebounce<O, SD, Item> as Observer>::next']


def check(cx):
    _env_wrapped = True
    from . import c03
    return _check_own(cx) + c03.envelopes(cx, ID)


def _check_own(cx):
    return ra(cx) + ([] if cx.control else rb(cx) + rc(cx) + rg(cx) + rh(cx)) + rd(cx) + re_(cx) + rf(cx)


def _is_item(e):
    """the incoming item of next(): argument 2, possibly cloned"""
    e = strip(e)
    if e[0] == 'call' and e[1] == 'std::clone::Clone::clone' and e[2]:
        e = strip(e[2][0])
    if e[0] == 'agg' and e[2].endswith('Option::Some') and e[3]:
        return _is_item(e[3][0])
    return e[0] == 'arg' and e[1] == 2


def ra(cx):
    res = []
    n = 0
    for im in cx.observer_impls():
        tag = roles.impl_tag(cx, im)
        if tag not in PENDING and not (cx.control and tag == 'verif_controls::DoubleEdge'):
            continue
        cell = pending_field(cx, im, tag)
        n += 1
        fn = cx.method(im, 'next')
        g = cx.graph(fn['key'])
        label = cx.label(fn)
        written = set()
        for x in g.nodes:
            if x['kind'] == 'assign':
                root, steps = access_path(x['lhs'])
                if root[0] == 'arg' and root[1] == 1 and steps:
                    written.add('.'.join(steps))

        def is_cell(e):
            root, steps = access_path(e)
            return root[0] == 'arg' and root[1] == 1 and cell in steps

        def step(st, nd, lab):
            sinks, env = st
            d, v = sw_value(lab)
            if d is not None and v in (0, 1):
                root, steps = access_path(d)
                key = '.'.join(steps)
                if root[0] == 'arg' and root[1] == 1 and steps and '@' not in steps and key not in written and strip(d)[0] == 'field':
                    prev = dict(env).get(key)
                    if prev is not None and prev != v:
                        return None  # infeasible: the same unwritten field read with two values
                    env = tuple(sorted(set(env) | {(key, v)}))
            k = nd['kind']
            if down_method(nd) == 'next' and len(nd['args']) > 1 and _is_item(nd['args'][1]):
                sinks = sinks | {'emitted@%d' % nd['id']}
            elif k == 'assign' and is_cell(nd['lhs']) and _is_item(nd['rhs']):
                sinks = sinks | {'parked'}
            elif k == 'call' and nd['name'].rsplit('::', 1)[-1] in ('push', 'push_back', 'replace', 'insert') and nd['args'] and is_cell(nd['args'][0]) and any(_is_item(a) for a in nd['args'][1:]):
                sinks = sinks | {'parked'}
            elif k == 'call' and nd['name'] in TAKE and nd['args'] and is_cell(nd['args'][0]):
                sinks = sinks - {'parked'}
            return (sinks, env)
        reached, pred = explore(g, (frozenset(), ()), step)
        bad = [(nid, st) for nid, st in ret_states(g, reached) if len(st[0]) > 1]
        if bad:
            nid, st = bad[0]
            res.append(Finding(ID, 'R-a', label, False,
                               'one incoming item reaches two emission sinks on a feasible path (%s under %s): it is delivered twice' % (sorted(st[0]), dict(st[1])),
                               fn['span'], witness(g, pred, (nid, st), interesting_default)))
        else:
            res.append(Finding(ID, 'R-a', label, True, 'each item reaches at most one emission sink per path', fn['span']))
    if not cx.control and n < len(PENDING):
        res.append(Finding(ID, 'R-a', 'floor', False, 'expected %d rate-limiting observers, found %d' % (len(PENDING), n)))
    return res


def rb(cx):
    F = cx.facts
    res = []
    emits = 0
    for fn in sorted(F.fns.values(), key=lambda f: f['key']):
        if fn['file'] != 'src/ops/buffer.rs' or fn['kind'] not in ('fn', 'assoc_fn'):
            continue
        g = cx.graph(fn['key'], inline=False)
        nexts = [x for x in g.nodes if down_method(x) == 'next']
        if not nexts:
            continue
        label = cx.label(fn) if fn.get('impl') else fn['path']
        for x in nexts:
            emits += 1
            # dominated by the false edge of is_empty on the emitted vector's cell
            # the vector that is emitted: whatever the emitted value was taken out of (a field of the buffering observer, by any name)
            from ..expr import walk as _walk
            vec_cls = {recv_class(e[2][0]) for a in x['args'][1:] for e in _walk(a) if e[0] == 'call' and e[1] in ('std::mem::take', 'std::mem::replace') and e[2]}
            if not vec_cls:
                vec_cls = {recv_class(a) for a in x['args'][1:]}
            checks = [c for c in g.nodes if c['kind'] == 'call' and c['name'].rsplit('::', 1)[-1] == 'is_empty' and c['args'] and recv_class(c['args'][0]) in vec_cls]
            cv = {strip(c['value']) for c in checks}

            lens = {strip(c['value']) for c in g.nodes if c['kind'] == 'call' and c['name'].rsplit('::', 1)[-1] == 'len' and c['args'] and recv_class(c['args'][0]) in vec_cls}

            def len_guard(d, v):
                """truth of `len(data) >= 1` implied by taking edge v of a comparison of len(data) with a constant, or None"""
                from ..core import const_int
                dd = strip(d)
                neg = False
                while dd[0] == 'un' and dd[1] == 'Not':
                    dd = strip(dd[2])
                    neg = not neg
                if dd[0] != 'bin':
                    return None
                a, b, op = strip(dd[2]), strip(dd[3]), dd[1]
                flip = {'Gt': 'Lt', 'Lt': 'Gt', 'Ge': 'Le', 'Le': 'Ge', 'Eq': 'Eq', 'Ne': 'Ne'}
                if b in lens and const_int(a) is not None:
                    a, b, op = b, a, flip.get(op, op)
                if a not in lens or const_int(b) is None:
                    return None
                c = const_int(b)
                truth = (v == 1) != neg
                table = {('Gt', True): c >= 0, ('Ge', True): c >= 1, ('Ne', True): c == 0, ('Eq', False): c == 0, ('Lt', False): c >= 1, ('Le', False): c >= 0, ('Eq', True): c >= 1}
                if table.get((op, truth)):
                    return True
                empty = {('Eq', True): c == 0, ('Le', True): c == 0, ('Lt', True): c == 1, ('Gt', False): c == 0, ('Ge', False): c == 1, ('Ne', False): c == 0}
                if empty.get((op, truth)):
                    return False
                return None

            def step(st, nd, lab):
                d, v = sw_value(lab)
                if d is not None and v in (0, 1):
                    lg = len_guard(d, v)
                    if lg is not None:
                        st = 'nonempty' if lg else 'empty'
                    elif mentions(d, lambda e: strip(e) in cv):
                        # `!is_empty()` is compiled as a switch on is_empty itself, or on Not(is_empty)
                        neg = mentions(d, lambda e: e[0] == 'un' and e[1] == 'Not')
                        nonempty = (v == 0) != neg
                        st = 'nonempty' if nonempty else 'empty'
                if nd is x and st != 'nonempty':
                    return 'BAD'
                return st
            reached, pred = explore(g, 'unknown', step)
            bad = [k for k in reached if k[1] == 'BAD']
            res.append(Finding(ID, 'R-b', label, not bad, 'buffer emitted only when not empty' if not bad else 'a buffer can be emitted without the !is_empty() guard: empty buffers would be delivered',
                               g.loc(x), witness(g, pred, bad[0], interesting_default) if bad else []))
    if emits < 1:
        res.append(Finding(ID, 'R-b', 'floor', False, 'no buffer emission site found in buffer.rs'))
    return res


def rc(cx):
    res = []
    seen = set()
    for im in cx.observer_impls():
        tag = roles.impl_tag(cx, im)
        if tag not in FLUSH_ON_COMPLETE:
            continue
        cell = pending_field(cx, im, tag)
        seen.add(tag)
        fn = cx.method(im, 'complete')
        g = cx.graph(fn['key'])
        flush = [x for x in g.nodes if down_method(x) == 'next' and len(x['args']) > 1 and
                 mentions(x['args'][1], lambda e: e[0] == 'call' and e[1] in TAKE and e[2] and cell in access_path(e[2][0])[1])]
        res.append(Finding(ID, 'R-c', cx.label(fn), bool(flush), 'pending content (%s) is flushed by take() before completing' % cell if flush else
                           'complete() no longer flushes the pending content (%s): the final item / last buffer is lost' % cell, fn['span']))
        # ... and on EVERY completing path: either the pending content goes out first, or the path has looked at the pending cell and found nothing
        if flush:
            from .. import prov as P
            try:
                sums, _ = P.summaries(g, item_arg=0)
            except Exception:
                sums = []
            bad2 = None
            about = lambda t: P.mentions_v(t, lambda x: isinstance(x, tuple) and x and x[0] == 'old' and cell in x[1])
            for sm, key in sums:
                if not P.emits(sm, 'complete'):
                    continue
                if any(about(e[2]) for e in P.emits(sm, 'next') if e[2] is not None):
                    continue
                if any(about(t) for t, v in sm['conds']):
                    continue
                bad2 = 'a path of complete() completes downstream without having looked at the pending content (%s): an item parked for the trailing edge / a partial buffer is silently dropped' % cell
            res.append(Finding(ID, 'R-c', cx.label(fn) + '|every path', not bad2, bad2 or 'every completing path flushes or has found the pending cell empty', fn['span']))
    for t in FLUSH_ON_COMPLETE:
        if t not in seen:
            res.append(Finding(ID, 'R-c', 'table:' + t, False, 'observer not found (fail closed)'))
    return res


def rd(cx):
    F = cx.facts
    res = []
    from ..core import sched_task_fn, SCHEDULE
    keys = []
    for im in cx.observer_impls():
        if roles.impl_tag(cx, im) in TASK_OWNERS:
            g0 = cx.graph(cx.method(im, 'next')['key'])
            for x in g0.nodes:
                if x['kind'] in ('call', 'enter') and x['name'] == SCHEDULE:
                    info = sched_task_fn(cx, x)
                    if info and info[1]:
                        keys.append(info[1])
    keys = sorted(set(keys))
    if not cx.control and len(keys) < 2:
        res.append(Finding(ID, 'R-d', 'floor', False, 'expected the debounce and throttle release tasks, found %d' % len(keys)))
    if cx.control:
        keys = [F.crate + '::verif_controls::clone_task']
    for k in keys:
        fn = F.fns.get(k)
        if fn is None:
            res.append(Finding(ID, 'R-d', k, False, 'task function not found (fail closed)'))
            continue
        g = cx.graph(k)
        nexts = [x for x in g.nodes if down_method(x) == 'next']
        bad = [x for x in nexts if len(x['args']) < 2 or not mentions(x['args'][1], lambda e: e[0] == 'call' and e[1] in TAKE)
               or mentions(x['args'][1], lambda e: e[0] == 'call' and e[1] == 'std::clone::Clone::clone')]
        ok = bool(nexts) and not bad
        res.append(Finding(ID, 'R-d', fn['path'] if cx.control else 'release task of ' + fn['file'], ok, 'the pending item leaves its cell by take()' if ok else
                           'the timer task emits a copy and leaves the pending item in its cell: it is emitted again later', fn['span'], [node_desc(g, x) for x in bad]))
    return res


def _tracks():
    from ..core import SCHEDULE, UNSUB_NAMES
    t = {SCHEDULE: 'schedule'}
    for u in UNSUB_NAMES:
        t[u] = 'unsub'
    return t


def re_(cx):
    """debounce: newest item parked, predecessor's timer cancelled, new timer armed with the configured delay and kept"""
    from .. import prov as P
    F = cx.facts
    res = []
    n = 0
    for im in cx.observer_impls():
        tag = roles.impl_tag(cx, im)
        if tag != ('verif_controls::NoCancelDebounce' if cx.control else 'ops::debounce::DebounceObserver'):
            continue
        n += 1
        fn = cx.method(im, 'next')
        sums, _ = P.summaries(cx.graph(fn['key']), track=_tracks())
        bad = None
        durs = [f for f, t in roles.adt_fields(cx, tag) if F.tystr(t) == 'std::time::Duration']
        for sm, key in sums:
            sched = [e for e in sm['events'] if e[0] == 'call' and e[1] == 'schedule']
            unsub = [e for e in sm['events'] if e[0] == 'call' and e[1] == 'unsub']
            stored = {k[1:]: v for k, v in sm['store'].items() if k[0] == 'S'}
            if not any(v == ('some', ('item', ())) for v in stored.values()) and all(P.decided(v) or v[0] == 'some' for v in stored.values()):
                bad = 'debounce: a path of next() does not park the incoming item as the newest value'
            if len(sched) != 1:
                bad = 'debounce: every item must arm exactly one timer'
                continue
            d = sched[0][2][-1]
            if P.decided(d) and not (d[0] == 'some' and d[1][0] == 'old' and d[1][1] and d[1][1][-1] in durs):
                bad = 'debounce: the timer is not armed with the configured delay (%s)' % P.show(d)
            cells = [k for k, v in stored.items() if v[0] == 'some' and v[1][0] == 'tracked' and v[1][1] == 'schedule']
            if not cells:
                bad = 'debounce: the handle of the new timer is not kept (it can be neither cancelled by the next item nor by unsubscribe)'
                continue
            cell = cells[0]
            c = P.cond_of(sm, lambda t: t == ('discr', ('old', cell)))
            want = ('old', cell + ('as Some', '0'))
            if c != 0 and not any(e[2] and e[2][0] == want for e in unsub):
                bad = 'debounce: the timer armed for the previous item is not cancelled: it fires inside the new item\'s window and delivers the new item early'
        res.append(Finding(ID, 'R-e', cx.label(fn), not bad, bad or 'parks the item, cancels the previous timer, arms a new one with the delay and keeps its handle', fn['span']))
    if not cx.control and n < 1:
        res.append(Finding(ID, 'R-e', 'floor', False, 'DebounceObserver not found'))
    return res


def rf(cx):
    """throttle: leading edge emits together with opening a window and does not keep the emitted item; inside a window the newest
    item is parked (trailing); the window timer uses the selector's duration for the item"""
    from .. import prov as P
    F = cx.facts
    res = []
    if cx.control:
        return res
    n = 0
    for im in cx.observer_impls():
        tag = roles.impl_tag(cx, im)
        if tag != 'ops::throttle::ThrottleObserver':
            continue
        n += 1
        fn = cx.method(im, 'next')
        sums, _ = P.summaries(cx.graph(fn['key']), track=_tracks())
        bad = None
        item = ('item', ())
        for sm, key in sums:
            sched = [e for e in sm['events'] if e[0] == 'call' and e[1] == 'schedule']
            ne = P.emits(sm, 'next')
            stored = {k[1:]: v for k, v in sm['store'].items() if k[0] == 'S'}
            flags = {t[1][-1]: v for t, v in sm['conds'] if t[0] == 'old' and len(t[1]) >= 1 and v in (0, 1)}
            lead = next((v for k, v in flags.items() if 'lead' in k), None)
            trail = next((v for k, v in flags.items() if 'tail' in k or 'trail' in k), None)
            if len(ne) > 1 or any(P.decided(e[2]) and e[2] != item for e in ne):
                bad = 'throttle: more than the incoming item is emitted from next()'
            if ne and not sched:
                bad = 'throttle: an item goes out on the leading edge without opening a window'
            if ne and lead == 0:
                bad = 'throttle: an item goes out although the leading edge is disabled'
            if len(sched) > 1:
                bad = 'throttle: more than one window timer per item'
            if sched:
                d = sched[0][2][-1]
                if P.decided(d) and not (d[0] == 'some' and d[1][0] == 'ucall'):
                    bad = 'throttle: the window timer is not armed with the duration the selector gives for this item'
                elif d[0] == 'some' and d[1][0] == 'ucall':
                    argv = sm['ucalls'][d[1][1]][1]
                    if argv[0] == 'tuple' and argv[1] and P.decided(argv[1][0]) and argv[1][0] != item:
                        bad = 'throttle: the duration selector is not applied to the incoming item'
                if not any(v[0] == 'some' and v[1][0] == 'tracked' for v in stored.values()):
                    bad = 'throttle: the handle of the window timer is not kept'
            parked = [k for k, v in stored.items() if v == ('some', item)]
            if ne and parked:
                bad = 'throttle: the item that went out on the leading edge is also kept for the trailing edge (it would be delivered twice)'
            if trail == 1 and not ne and not parked and all(P.decided(v) for v in stored.values()) and not (sched and lead == 1):
                bad = 'throttle: inside a window the newest item is not parked for the trailing edge'
            if trail == 0 and parked:
                bad = 'throttle: an item is parked although the trailing edge is disabled'
        res.append(Finding(ID, 'R-f', cx.label(fn), not bad, bad or 'leading/trailing edge protocol holds on all %d path classes' % len(sums), fn['span']))
    if n < 1:
        res.append(Finding(ID, 'R-f', 'floor', False, 'ThrottleObserver not found'))
    return res


_RATE_MODS = ('ops::debounce::', 'ops::throttle::', 'ops::sample::', 'ops::buffer::')


def rh(cx):
    """every subscription has its own window state: the pending-timer slot, the trailing candidate and the buffers are created per
    subscription (in actual_subscribe), the operator value carries no shared cell (same rule as C13.Z3) — with one slot shared by the
    clones of an operator, an item (or unsubscribe) on one subscription cancels the pending timer of the other, whose item is then
    not delivered although nothing newer arrived on its own source"""
    from . import c13
    out = []
    for f in c13.z3(cx):
        if f.key.startswith(_RATE_MODS) or (f.key.startswith('cell created in') and any(m in f.key for m in _RATE_MODS)):
            out.append(Finding(ID, 'R-h', f.key, f.ok, f.msg, f.loc, f.witness))
    if len([f for f in out if f.ok]) < 4 and not [f for f in out if not f.ok]:
        out.append(Finding(ID, 'R-h', 'floor', False, 'expected the debounce/throttle/sample/buffer operator types, found %d' % len(out)))
    return out


def rg(cx):
    """count limit of buffer_with_count(_and_time): the buffer is released exactly when it holds `count` items (same rule as C03.S10)"""
    from . import c03
    out = [Finding(ID, 'R-g', f.key, f.ok, f.msg, f.loc, f.witness) for f in c03.s10(cx) if 'BufferWithCountObserver' in f.key]
    if not out:
        out.append(Finding(ID, 'R-g', 'floor', False, 'BufferWithCountObserver not found'))
    return out
