"""C08 — time and async sources (DESIGN §3 C08)."""
from ..core import (const_int, Finding, explore, witness, ret_states, sw_value, mentions, node_desc, interesting_default, lang_check, down_method, reachable)
from ..expr import access_path, strip, render
from .. import roles

ID = 'C08'
LEVEL = 'other'
EXPLANATION = ('Static rules: I1 RepeatTask counts seq only by +1, only after the task accepted the tick, and hands exactly that seq to the '
               'task (consecutive integers from 0); I2 every tick is preceded by a Ready poll of the current timer and every further '
               'iteration re-arms a fresh new_timer(self.interval) that replaces it (one period between ticks, never earlier however late '
               'the executor runs); I3 the stream drivers relay Some(v) as next, end with take()+complete (or error) and Ready, and '
               'construct Pending only by propagating the inner poll; the one-shot task functions have their documented shape (C03.S1) and '
               'the _at forms convert the deadline in the right direction (C07.T2). I8 interval/interval_at/timer store the Duration they are given unaltered (no clamping or rounding of the period); I7 new_timer creates the backend timer in its own body (no async block around it): the clock of a timer starts at creation, which RepeatTask::new, the re-arm after a tick and interval_at rely on; I6 the future relay (FutureTask::poll, behind from_future/from_future_result) takes its observer out of the argument slot only after the inner future answered Ready and returns Pending only when the future did (a future pending k polls loses nothing); I5 every Scheduler::schedule awaits the delay timer to Ready before the first poll of the task, for every non-None delay (same rule as C19.H2); I4 timer and interval start their clock at subscription: the plain constructors do not read the clock (same rule as C13.Z1), the _at forms compute deadline - now forwards (same rule as C07.T2). Does not decide wall/virtual time ("exactly one '
               'period"), clock jumps or poll orders: timing is delegated to the timer future, which is trusted.')
ASSUMPTIONS = ['the timer future completes no earlier than its duration']

CONTROLS = ['I2|<verif_controls::NoRearmRepeat<Args> as Future>::poll', 'I1|<verif_controls::NoRearmRepeat<Args> as Future>::poll']


def _is_pending(e):
    e = strip(e)
    return e[0] == 'agg' and e[2].endswith('Poll::Pending')


def check(cx):
    _env_wrapped = True
    from . import c03
    return _check_own(cx) + c03.envelopes(cx, ID)


def _check_own(cx):
    return i12(cx) + ([] if cx.control else i3(cx) + i4(cx) + i5(cx) + i6(cx) + i7(cx) + i8(cx))


def i8(cx):
    """'exactly one period': the period / delay a caller hands to interval, interval_at and timer is the one the observable keeps —
    wherever a builder in interval.rs / timer.rs puts a Duration parameter into the value it returns, it puts the parameter itself
    (not a clamped, rounded or scaled version of it). The _at deadlines are C07.T2's."""
    from ..expr import walk
    F = cx.facts
    res = []
    n = 0
    for fn in sorted(F.fns.values(), key=lambda f: f['key']):
        if fn['kind'] not in ('fn', 'assoc_fn') or fn.get('file') not in ('src/observable/interval.rs', 'src/observable/timer.rs') or 'inputs' not in fn:
            continue
        durs = [i + 1 for i, t in enumerate(fn['inputs']) if F.adt_path(t) == 'std::time::Duration' and F.ty(t)['k'] == 'adt']
        if not durs or fn.get('impl'):
            continue
        n += 1
        g = cx.graph(fn['key'], inline=False)
        bad = None
        for x in g.nodes:
            e = x.get('rhs') if x['kind'] == 'assign' else None
            if e is None:
                continue
            for a in walk(e):
                if a[0] == 'agg' and a[1] == 'adt':
                    for op in a[3]:
                        so = strip(op)
                        if mentions(op, lambda z: z[0] == 'arg' and z[1] in durs) and not (so[0] == 'arg' and so[1] in durs) and not (so[0] == 'agg' and so[2].endswith('Option::Some') and so[3] and strip(so[3][0])[0] == 'arg'):
                            bad = (x, op)
        res.append(Finding(ID, 'I8', fn['path'], bad is None,
                           'the Duration parameter is stored as it was given' if bad is None else
                           'the period/delay given by the caller is altered before it is stored (%s): the ticks are no longer one (given) period apart' % render(bad[1])[:80],
                           g.loc(bad[0]) if bad else fn['span']))
    if n < 3:
        res.append(Finding(ID, 'I8', 'floor', False, 'expected interval, interval_at and timer, found %d builder(s) with a Duration parameter' % n))
    return res


def i7(cx):
    """a timer's clock starts when it is created: new_timer(dur) makes the backend timer itself, in its own body, and hands it out —
    it builds no async block around it. RepeatTask arms the timer of its next period when it is constructed / right after a tick and
    polls it later; interval_at relies on the first period running concurrently with the start delay. A timer that only starts at
    its first poll makes the first tick (and every period after a late poll) longer than the period."""
    from ..expr import walk
    F = cx.facts
    res = []
    n = 0
    for fn in sorted(F.fns.values(), key=lambda f: f['key']):
        if fn['kind'] != 'fn' or fn.get('name') != 'new_timer' or 'scheduler' not in fn.get('file', ''):
            continue
        n += 1
        g = cx.graph(fn['key'], inline=False)
        lazy = []
        eager = []
        for x in g.nodes:
            for e in list(x.get('args') or []) + [x.get('rhs')]:
                if e is None:
                    continue
                for y in walk(e):
                    if y[0] == 'agg' and y[1] in ('coroutine', 'coroutine_closure'):
                        lazy.append(x)
            if x['kind'] == 'call' and not x['ctx'] and any(mentions(a, lambda z: z[0] == 'arg' and z[1] == 1) for a in (x.get('args') or [])) or \
                    (x['kind'] == 'call' and x['name'] == '<fnptr>' and any(mentions(a, lambda z: z[0] == 'arg' and z[1] == 1) for a in (x.get('args') or []))):
                eager.append(x)
        ok = bool(eager) and not lazy
        res.append(Finding(ID, 'I7', cx.label(fn) if fn.get('impl') else fn['path'], ok,
                           'the backend timer is created from the duration in the body of new_timer (its clock starts at creation)' if ok else
                           ('new_timer wraps the timer in an async block: the timer is only created (and its clock only starts) at the first poll — a timer armed in advance (RepeatTask::new, the re-arm after a tick, interval_at) runs late by the time until it is first polled'
                            if lazy else 'new_timer does not create a timer from its duration'),
                           g.loc(lazy[0]) if lazy else fn['span']))
    if n < 1:
        res.append(Finding(ID, 'I7', 'floor', False, 'new_timer not found'))
    return res


def i6(cx):
    """from_future / from_future_result relay whatever the future yields, however often it is Pending first: FutureTask::poll takes its
    argument (the observer) out of the Option slot only once the inner future has been polled and did not answer Pending — taken earlier,
    the observer is dropped with the first Pending and the value is never relayed"""
    from ..core import TAKE, recv_class
    F = cx.facts
    res = []
    n = 0
    for im in F.impls_of('futures::Future'):
        tag = roles.impl_tag(cx, im)
        if tag != 'scheduler::FutureTask':
            continue
        fn = F.impl_fn(im, 'poll')
        if fn is None:
            continue
        n += 1
        g = cx.graph(fn['key'])
        label = cx.label(fn)
        slot = roles.field_where(cx, tag, lambda t, ti: roles.is_option_of(F, t), 'argument slot')
        polls = [x for x in g.nodes if x['kind'] == 'call' and x['name'] == 'futures::Future::poll' and not x['ctx']]
        pv = {strip(x['value']) for x in polls}
        takes = [x for x in g.nodes if x['kind'] == 'call' and x['name'] in TAKE and x['args'] and recv_class(x['args'][0]) == 'self.' + slot]

        def step(st, nd, lab):
            if st == 'BAD':
                return None
            d, v = sw_value(lab)
            if d is not None:
                dd = strip(d)
                if dd[0] == 'discr' and strip(dd[1]) in pv:
                    st = 'ready' if v == 0 else 'pending'
            if nd in polls:
                return 'polled'
            if nd in takes and st in ('start', 'pending'):
                return 'BAD'
            if nd['kind'] == 'assign' and not nd['ctx'] and nd['lhs'][0] == 'local' and nd['lhs'][1] == 0 and _is_pending(nd['rhs']) and st != 'pending':
                return 'BAD'
            return st
        r, pr = explore(g, 'start', step)
        bad = [k for k in r if k[1] == 'BAD']
        ok = bool(polls) and bool(takes) and not bad
        res.append(Finding(ID, 'I6', label, ok,
                           'the observer leaves its slot only after the future answered Ready; Pending is only propagated' if ok else
                           ('the argument slot (observer) is emptied before the inner future answered Ready — or Pending is returned without it: a future that is Pending on its first poll loses its observer, nothing is ever relayed'
                            if bad else 'FutureTask::poll does not poll its future / never takes its arguments'),
                           fn['span'], witness(g, pr, bad[0], interesting_default) if bad else []))
    if n != 1:
        res.append(Finding(ID, 'I6', 'floor', False, 'expected one FutureTask poll impl, found %d' % n))
    return res


def i5(cx):
    """the scheduler waits for the whole delay it is handed before the first poll of a task (same rule as C19.H2): timer / timer_at /
    interval_at rely on it for 'never earlier'"""
    from . import c19
    return [Finding(ID, 'I5', f.key, f.ok, f.msg, f.loc, f.witness) for f in c19.h2(cx)]


def i4(cx):
    """timer/interval count their time from subscription: the plain forms do not read the clock while the pipeline is built
    (same rule as C13.Z1) and the _at forms wait for deadline - now, computed forwards (same rule as C07.T2)"""
    from . import c13, c07
    out = []
    for f in c13.z1(cx):
        if f.key.startswith(('observable::timer::', 'observable::interval::')):
            out.append(Finding(ID, 'I4', f.key, f.ok, f.msg, f.loc, f.witness))
    for f in c07.t2(cx):
        if 'observable::timer::' in f.key or 'observable::interval::' in f.key:
            out.append(Finding(ID, 'I4', f.key + '|deadline', f.ok, f.msg, f.loc, f.witness))
    if len(out) < 4:
        out.append(Finding(ID, 'I4', 'floor', False, 'expected the timer/interval constructors, found %d' % len(out)))
    return out


def i12(cx):
    F = cx.facts
    res = []
    n = 0
    for im in F.impls_of('futures::Future'):
        tag = roles.impl_tag(cx, im)
        if tag != 'scheduler::RepeatTask' and not (cx.control and tag == 'verif_controls::NoRearmRepeat'):
            continue
        n += 1
        fn = F.impl_fn(im, 'poll')
        g = cx.graph(fn['key'])
        label = cx.label(fn)
        FURS = roles.field_where(cx, tag, lambda t, ti: F.mentions(ti, lambda x: x['k'] == 'dyn' and any(tr['p'].endswith('Future') for tr in x['tr'])), 'timer future', unique=False)
        INTERVAL = roles.field_where(cx, tag, lambda t, ti: t['k'] == 'adt' and t['p'] == 'std::time::Duration', 'period')
        SEQ = roles.field_where(cx, tag, lambda t, ti: t['s'] == 'usize', 'sequence counter')
        from ..core import own_fnptr_call
        tasks = [x for x in g.nodes if own_fnptr_call(x)]      # the task pointer kept in self (possibly called inside a private helper such as run_tick())
        fur_polls = {strip(x['value']) for x in g.nodes if x['kind'] == 'call' and x['name'].rsplit('::', 1)[-1] in ('poll_unpin', 'poll') and x['args']
                     and access_path(x['args'][0])[1][-1:] and access_path(x['args'][0])[1][-1] in FURS}
        # I2
        def step(st, nd, lab):
            if st.startswith('BAD'):
                return None
            d, v = sw_value(lab)
            if d is not None:
                dd = strip(d)
                neg = 0
                while dd[0] == 'un' and dd[1] == 'Not':
                    dd = strip(dd[2])
                    neg ^= 1
                if dd[0] == 'discr' and strip(dd[1]) in fur_polls and v == 0 and st == 'armed' and not neg:
                    st = 'ready'
                # Poll::is_pending() / is_ready() on the value of the timer poll
                if dd[0] == 'call' and dd[2] and strip(dd[2][0]) in fur_polls and st == 'armed' and v in (0, 1):
                    tail = dd[1].rsplit('::', 1)[-1]
                    if (tail == 'is_pending' and (v ^ neg) == 0) or (tail == 'is_ready' and (v ^ neg) == 1):
                        st = 'ready'
            if nd in tasks:
                if st != 'ready':
                    return 'BAD:' + st
                return 'ticked'
            if nd['kind'] in ('call', 'enter') and nd['name'].endswith('new_timer') and st == 'ticked':
                if nd['args'] and access_path(nd['args'][0])[1][-1:] == [INTERVAL]:
                    return 'timer'
                return 'BAD:timer-not-interval'
            if st == 'timer':
                if nd['kind'] == 'call' and nd['name'] in ('std::mem::swap', 'std::mem::replace') and any(access_path(a)[1][-1:] and access_path(a)[1][-1] in FURS for a in nd['args']):
                    return 'armed'
                if nd['kind'] == 'assign' and access_path(nd['lhs'])[1][-1:] and access_path(nd['lhs'])[1][-1] in FURS:
                    return 'armed'
            return st
        reached, pred = explore(g, 'armed', step)
        bad = [k for k in reached if isinstance(k[1], str) and k[1].startswith('BAD')]
        if bad or len(tasks) != 1 or not fur_polls:
            why = {'BAD:ticked': 'the task can tick again without a fresh timer having been armed and awaited',
                   'BAD:timer': 'the fresh timer is not installed into self.fur before the next tick',
                   'BAD:armed': 'the task ticks before the timer was polled Ready'}.get(bad[0][1], str(bad[0][1])) if bad else 'expected one task call and a poll of self.fur'
            res.append(Finding(ID, 'I2', label, False, 'period not enforced: ' + why, fn['span'], witness(g, pred, bad[0], interesting_default) if bad else []))
        else:
            res.append(Finding(ID, 'I2', label, True, 'tick only after Ready(timer); every iteration arms new_timer(self.interval) into self.fur', fn['span']))
        # I1
        writes = [x for x in g.nodes if x['kind'] == 'assign' and access_path(x['lhs'])[1][-1:] == [SEQ]]
        ok = bool(writes) and bool(tasks)
        msg = 'seq passed to the task; seq := seq + 1 only after the task returned true'
        for x in tasks:
            if not any(access_path(a)[1][-1:] == [SEQ] for a in x['args']):
                ok = False
                msg = 'the task is not called with self.seq'
        for w in writes:
            r = strip(w['rhs'])
            inc = mentions(r, lambda e: e[0] == 'bin' and e[1].startswith('Add') and access_path(e[2])[1][-1:] == [SEQ] and const_int(e[3]) == 1)
            if not inc:
                ok = False
                msg = 'seq is written by something other than seq + 1: %s' % render(r)[:60]
        if ok and tasks:
            tv = strip(tasks[0]['value'])

            def step2(st, nd, lab):
                if st == 'BAD':
                    return None
                d, v = sw_value(lab)
                if d is not None and mentions(d, lambda e: strip(e) == tv):
                    st = 'true' if v == 1 else 'false'
                if nd in writes and st != 'true':
                    return 'BAD'
                if nd in tasks:
                    return 'asked'
                return st
            r2, p2 = explore(g, 'start', step2)
            if any(k[1] == 'BAD' for k in r2):
                ok = False
                msg = 'seq is incremented on a path where the task did not accept the tick'
        res.append(Finding(ID, 'I1', label, ok, msg, fn['span']))
    if cx.control:
        return res
    if n < 1:
        res.append(Finding(ID, 'I2', 'floor', False, 'RepeatTask::poll not found'))
    # seq starts at 0
    for fn in F.fns.values():
        if fn.get('name') == 'new' and fn.get('impl') and roles.impl_tag(cx, F.impls[fn['impl']]) == 'scheduler::RepeatTask':
            g = cx.graph(fn['key'], inline=False)
            aggs = [x for x in g.nodes if x['kind'] == 'assign' and strip(x['rhs'])[0] == 'agg' and strip(x['rhs'])[2].endswith('RepeatTask::RepeatTask')]
            ok = False
            for x in aggs:
                a = strip(x['rhs'])
                names = a[5]
                SEQ = roles.field_where(cx, 'scheduler::RepeatTask', lambda t, ti: t['s'] == 'usize', 'sequence counter')
                FURS2 = roles.field_where(cx, 'scheduler::RepeatTask', lambda t, ti: F.mentions(ti, lambda x: x['k'] == 'dyn' and any(tr['p'].endswith('Future') for tr in x['tr'])), 'timer future', unique=False)
                if SEQ in names:
                    v = strip(a[3][names.index(SEQ)])
                    ok = const_int(v) == 0
            res.append(Finding(ID, 'I1', cx.label(fn), ok, 'seq starts at 0' if ok else 'RepeatTask::new does not start seq at 0', fn['span']))
            okf = False
            why = 'RepeatTask::new does not arm the first timer'
            for x in aggs:
                a = strip(x['rhs'])
                names = a[5]
                for FUR in [f_ for f_ in FURS2 if f_ in names][:1]:
                    v = strip(a[3][names.index(FUR)])
                    okf = v[0] == 'call' and v[1].endswith('new_timer') and bool(v[2]) and strip(v[2][0])[0] == 'arg'
                    if not okf:
                        why = 'the first timer is not new_timer(<period>) armed when the task is created (at subscription): fur = %s — the first tick would be due one period after the first poll, not after subscription' % render(v)[:60]
            res.append(Finding(ID, 'I2', cx.label(fn), okf, 'first timer armed at creation with the period' if okf else why, fn['span']))
    return res


def i3(cx):
    F = cx.facts
    res = []
    n = 0
    for im in F.impls_of('futures::Future'):
        tag = roles.impl_tag(cx, im)
        fn = F.impl_fn(im, 'poll')
        if fn is None or not fn['file'].startswith('src/observable/'):
            continue
        g = cx.graph(fn['key'])
        label = cx.label(fn)
        polls = [x for x in g.nodes if x['kind'] == 'call' and x['name'].rsplit('::', 1)[-1] in ('poll_next', 'try_poll_next', 'poll_next_unpin')]
        if not polls or not any(down_method(x) == 'next' for x in g.nodes):
            continue   # a stream driver polls a stream and relays its items downstream
        n += 1
        pv = {strip(x['value']) for x in polls}
        terms = [x for x in g.nodes if down_method(x) in ('complete', 'error')]
        ok = bool(polls) and bool(terms)
        msg = 'Some(v) -> next; end -> take()+terminal, Ready; Pending only propagated'
        for t in terms:
            if '!take' not in access_path(t['args'][0])[1]:
                ok = False
                msg = 'terminal is sent on an observer left in its slot'
            if any(g.nodes[s] in polls for s in reachable(g, [m for m, k, l in g.succs(t['id'])])):
                ok = False
                msg = 'the stream is polled again after the terminal was delivered'

        def step(st, nd, lab):
            if st == 'BAD':
                return None
            d, v = sw_value(lab)
            if d is not None:
                dd = strip(d)
                if dd[0] == 'discr' and strip(dd[1]) in pv:
                    st = 'ready' if v == 0 else 'pending'
            if nd['kind'] == 'assign' and not nd['ctx'] and nd['lhs'][0] == 'local' and nd['lhs'][1] == 0 and _is_pending(nd['rhs']) and st != 'pending':
                return 'BAD'
            if nd in polls:
                return 'polled'
            return st
        r, p = explore(g, 'start', step)
        if any(k[1] == 'BAD' for k in r):
            ok = False
            msg = 'returns Pending although the inner stream was Ready (nobody will wake the task)'
        nexts = [x for x in g.nodes if down_method(x) == 'next']
        for x in nexts:
            if not mentions(x['args'][1], lambda e: strip(e) in pv):
                ok = False
                msg = 'the relayed item is not the value yielded by the stream'
        res.append(Finding(ID, 'I3', label, ok, msg, fn['span']))
    if n < 2:
        res.append(Finding(ID, 'I3', 'floor', False, 'expected the two stream driver futures, found %d' % n))
    return res
