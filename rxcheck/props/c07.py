"""C07 — scheduler-moving operators (DESIGN §3 C07)."""
from ..core import (recv_class, Finding, lang_check, down_token, mentions, node_desc, SCHEDULE, sched_task_fn, task_tokens, down_method)
from ..expr import access_path, strip, render, walk
from .. import roles

ID = 'C07'
LEVEL = 'other'
EXPLANATION = ('Static rules: T2 every function that turns a deadline `at: Instant` into a delay computes deadline − now (at - now under at > now, '
               'saturating/checked_duration_since(now)), never now − deadline (at.elapsed(), now.duration_since(at)); T3 delay forwards errors '
               'immediately and schedules items and completion, observe_on schedules all three, each task delivering exactly its notification; '
               'T4 the delay handed to Scheduler::schedule is Some(<the operator\'s delay field>) for delay/delay_subscription and None for '
               'observe_on/subscribe_on (that the scheduler waits for it is C19.H2). T8 where a delaying observer is built, its Duration field is the own Duration field of the operator, unchanged (no arithmetic, no clock between configuration and use). T5 an operator observer only appends to the MultiSubscription it shares with the returned subscription and never unsubscribes it (otherwise the task carrying the terminal is cancelled on append). T7 while handling a notification, the scheduling operators never ask their own task handles whether they are closed (a task handle is locked while its task runs, and an item produced from inside that task would wait for it for ever); T6 the delay timer of a scheduled task is armed inside the task future (at its first poll), never in Scheduler::schedule itself: with deadlines fixed at schedule time an already-expired later task runs inline while an earlier one that was polled too early is re-queued behind it, so items of one delay operator overtake each other on a busy scheduler. Declined: order preservation "whatever order the '
               'scheduler runs its ready tasks in" — each notification is an independent task and nothing re-sequences them, which on a '
               'k-worker pool quantifies over executor run orders that no static argument here bounds.')
ASSUMPTIONS = ['Instant arithmetic as documented in std']

CONTROLS = ['T2|verif_controls::wait_until_backwards', 'T4|<verif_controls::NoDelayObserver<O, SD> as Observer>::next',
            'T5|<verif_controls::ClosesSharedMulti<O> as Observer>::error']
CONTROLS_OK = ['T2|verif_controls::wait_until_forwards']

INSTANT = 'std::time::Instant'
BACKWARD = ('std::time::Instant::elapsed',)
DIFF = ('std::time::Instant::duration_since', 'std::time::Instant::saturating_duration_since', 'std::time::Instant::checked_duration_since',
        'std::ops::Sub::sub')

# (impl tag, method) -> expected delay operand and token spec
T_SPEC = {
    ('ops::delay::DelayObserver', 'next'): ('delay', 'S.next'),
    ('ops::delay::DelayObserver', 'error'): (None, 'error'),
    ('ops::delay::DelayObserver', 'complete'): ('delay', 'S.complete'),
    ('ops::delay::DelayObserverThreads', 'next'): ('delay', 'S.next'),
    ('ops::delay::DelayObserverThreads', 'error'): (None, 'error'),
    ('ops::delay::DelayObserverThreads', 'complete'): ('delay', 'S.complete'),
    ('ops::observe_on::ObserveOnObserver', 'next'): ('none', 'S.next'),
    # (the statement allows a prefix of the items when the source fails: the error may be scheduled like an item or, as in delay, go out at once)
    ('ops::observe_on::ObserveOnObserver', 'error'): ('none', 'S.error | error'),
    ('ops::observe_on::ObserveOnObserver', 'complete'): ('none', 'S.complete'),
    ('ops::observe_on::ObserveOnObserverThreads', 'next'): ('none', 'S.next'),
    ('ops::observe_on::ObserveOnObserverThreads', 'error'): ('none', 'S.error | error'),
    ('ops::observe_on::ObserveOnObserverThreads', 'complete'): ('none', 'S.complete'),
}
SUB_SPEC = {
    'ops::delay::DelaySubscriptionOp': 'delay',
    'ops::subscribe_on::SubscribeOnOP': 'none',
}


def check(cx):
    _env_wrapped = True
    from . import c03
    return _check_own(cx) + c03.envelopes(cx, ID)


def _check_own(cx):
    return [f for f in t2(cx) if not f.key.startswith(('observable::interval::', 'observable::timer::'))] + t34(cx) + t5(cx) + t6(cx) + t7(cx)


def t2(cx):
    F = cx.facts
    res = []
    n = 0
    for fn in sorted(F.fns.values(), key=lambda f: f['key']):
        if fn['kind'] not in ('fn', 'assoc_fn') or 'inputs' not in fn:
            continue
        at_args = [i + 1 for i, t in enumerate(fn['inputs']) if F.adt_path(t) == INSTANT and F.ty(t)['k'] == 'adt']
        if not at_args:
            continue
        if 'fake_timer' in fn['key']:
            continue
        n += 1
        g = cx.graph(fn['key'])
        label = cx.label(fn) if fn.get('impl') else fn['path']

        def from_at(e):
            return mentions(e, lambda x: x[0] == 'arg' and x[1] in at_args)
        bad = []
        good = []
        for x in g.nodes:
            if x['kind'] not in ('call', 'enter'):
                continue
            if x['name'] in BACKWARD and x['args'] and from_at(x['args'][0]):
                bad.append((x, 'at.elapsed() is the time since the instant (now − deadline)'))
            elif x['name'] in DIFF and len(x['args']) == 2:
                if from_at(x['args'][1]) and not from_at(x['args'][0]):
                    bad.append((x, 'the deadline is subtracted from now (now − deadline)'))
                elif from_at(x['args'][0]):
                    good.append(x)
        if bad:
            x, why = bad[0]
            res.append(Finding(ID, 'T2', label, False,
                               'the delay for a deadline is computed in the wrong direction: %s — a future instant gives a zero delay, a past one a growing delay' % why,
                               g.loc(x), [node_desc(g, x)]))
        elif good:
            # the difference must be used as it is: shortening it ("the task waits one period anyway") lets the first event come before the deadline
            short = None
            gv = [strip(x['value']) for x in good]
            for x in g.nodes:
                if x['kind'] in ('call', 'enter') and x['args'] and any(mentions(x['args'][0], lambda e, v=v: strip(e) == v) for v in gv):
                    tail = x['name'].rsplit('::', 1)[-1]
                    if tail in ('saturating_sub', 'checked_sub', 'sub', 'mul_f64', 'mul_f32', 'div_f64', 'div_f32', 'checked_div', 'div') and x['name'].startswith(('std::time::Duration', 'std::ops::Sub', 'std::ops::Div')):
                        short = x
            if short is None:
                # ... or rebuilt from a truncated reading of itself (whole milliseconds / seconds): rounds the delay down
                TRUNC = ('as_secs', 'as_millis', 'as_micros', 'subsec_millis', 'subsec_micros', 'as_secs_f32')
                for x in g.nodes:
                    if x['kind'] in ('call', 'enter') and x['name'].startswith('std::time::Duration::') and x['name'].rsplit('::', 1)[-1] in (
                            'from_millis', 'from_secs', 'from_micros', 'from_nanos', 'new', 'from_secs_f32', 'from_secs_f64'):
                        if any(mentions(a, lambda e: e[0] == 'call' and e[1].startswith('std::time::Duration::') and e[1].rsplit('::', 1)[-1] in TRUNC and e[2]
                                        and any(mentions(e[2][0], lambda y, v=v: strip(y) == v) for v in gv)) for a in x['args']):
                            lossless = x['name'].endswith('::new') and any(mentions(a, lambda e: e[0] == 'call' and e[1].endswith('Duration::subsec_nanos')) for a in x['args'])
                            if not lossless:      # Duration::new(d.as_secs(), d.subsec_nanos()) rebuilds d exactly
                                short = x
            if short is not None:
                res.append(Finding(ID, 'T2', label, False,
                                   'the time left until the deadline is shortened again before it is used as the delay (%s): the first event can come before the requested instant' % render(short['value'])[:80],
                                   g.loc(short), [node_desc(g, short)]))
            else:
                res.append(Finding(ID, 'T2', label, True, 'delay = deadline − now (%s)' % render(good[0]['value'])[:70], fn['span']))
        else:
            res.append(Finding(ID, 'T2', label, False, 'receives a deadline but never computes deadline − now', fn['span']))
    if not cx.control and n < 5:
        # the five public entry points: delay_at, delay_at_threads, delay_subscription_at, timer_at, interval_at (private helpers come and go)
        res.append(Finding(ID, 'T2', 'floor', False, 'only %d functions taking a deadline found, expected >= 5' % n))
    return res


_DUR = {'fields': {'delay'}}


def _delay_operand(n):
    """'delay' when args[2] is Some(<something>.delay), 'none' for None, else text"""
    if len(n['args']) < 3:
        return '?'
    a = strip(n['args'][2])
    if a[0] == 'agg' and a[2].endswith('Option::None'):
        return 'none'
    if a[0] == 'agg' and a[2].endswith('Option::Some') and a[3]:
        root, steps = access_path(a[3][0])
        if len(steps) == 1 and root[0] == 'arg' and root[1] == 1 and steps[0] in _DUR['fields']:
            return 'delay'
        return 'some(%s)' % render(a[3][0])
    return render(a)


def t34(cx):
    F = cx.facts
    res = []
    seen = set()
    for im in cx.observer_impls():
        tag = roles.impl_tag(cx, im)
        ctl = cx.control and tag == 'verif_controls::NoDelayObserver'
        for meth in ('next', 'error', 'complete'):
            spec = T_SPEC.get((tag, meth))
            if ctl and meth == 'next':
                spec = ('delay', 'S.next')
            if spec is None:
                continue
            seen.add((tag, meth))
            want_delay, word = spec
            _DUR['fields'] = {f for f, t in roles.adt_fields(cx, tag) if F.adt_path(t) == 'std::time::Duration'} or {'delay'}
            fn = cx.method(im, meth)
            g = cx.graph(fn['key'])
            label = cx.label(fn)

            def ev(n):
                t = down_token(n)
                if t:
                    return t
                if n['kind'] in ('call', 'enter') and n['name'] == SCHEDULE:
                    tt = task_tokens(cx, n)
                    return tuple('S.' + x for x in tt) if tt else ('S.?',)
                return None
            bad = lang_check(g, word, ev, exact=True, empty_ok=True)
            res.append(Finding(ID, 'T3', label, not bad, bad[0] if bad else "delivers '%s'" % word, fn['span'], bad[1] if bad else None))
            scheds = [n for n in g.nodes if n['kind'] in ('call', 'enter') and n['name'] == SCHEDULE]
            if want_delay is not None:
                ops = sorted({_delay_operand(n) for n in scheds})
                ok = ops == [want_delay] or (not scheds and '| error' in word)
                res.append(Finding(ID, 'T4', label, ok,
                                   'schedules with delay = %s' % ops if ok else 'the task is scheduled with delay %s, expected %s' % (ops, 'Some(self.delay)' if want_delay == 'delay' else 'None'),
                                   fn['span'], [node_desc(g, n) for n in scheds]))
    if cx.control:
        return res
    for k in T_SPEC:
        if k not in seen:
            res.append(Finding(ID, 'T3', 'table:%s::%s' % k, False, 'table entry matches no method (fail closed)'))
    for im in F.impls_of('observable::Observable'):
        tag = roles.impl_tag(cx, im)
        if tag not in SUB_SPEC:
            continue
        seen.add(tag)
        fn = F.impl_fn(im, 'actual_subscribe')
        g = cx.graph(fn['key'])
        _DUR['fields'] = {f for f, t in roles.adt_fields(cx, tag) if F.adt_path(t) == 'std::time::Duration'} or {'delay'}
        scheds = [n for n in g.nodes if n['kind'] in ('call', 'enter') and n['name'] == SCHEDULE]
        ops = sorted({_delay_operand(n) for n in scheds})
        ok = ops == [SUB_SPEC[tag]]
        res.append(Finding(ID, 'T4', cx.label(fn), ok, 'subscription task scheduled with delay = %s' % ops, fn['span']))
    for tag in SUB_SPEC:
        if tag not in seen:
            res.append(Finding(ID, 'T4', 'table:' + tag, False, 'table entry matches no impl (fail closed)'))
    # T8: the delay an observer of T4 waits is the operator's configured one: wherever a delaying observer is built, its Duration
    # field is a plain copy of the builder's own Duration field (nothing subtracted, no clock consulted between configuration and use)
    obs_tags = {t for (t, m), (w, _w) in T_SPEC.items() if w == 'delay'}
    built = 0
    files = {str(cx.method(im, 'next')['span']).split(':')[0] for im in cx.observer_impls() if roles.impl_tag(cx, im) in obs_tags}
    for fn in F.fns.values():
        if str(fn.get('span', '')).split(':')[0] not in files:
            continue
        try:
            g = cx.graph(fn['key'])
        except Exception:
            continue
        for n in g.nodes:
            if n.get('ctx'):
                continue
            for ex in [n.get('rhs'), n.get('value')] + list(n.get('args') or []):
                if not isinstance(ex, tuple):
                    continue
                for e in walk(ex):
                    if not (isinstance(e, tuple) and e and e[0] == 'agg' and e[1] == 'adt'):
                        continue
                    ot = [t for t in obs_tags if e[2].startswith(t + '::')]
                    if not ot:
                        continue
                    idx = [i for i, (f_, t_) in enumerate(roles.adt_fields(cx, ot[0])) if F.adt_path(t_) == 'std::time::Duration']
                    for i in idx:
                        if i >= len(e[3]):
                            continue
                        built += 1
                        r = render(strip(e[3][i]))
                        okd = r.startswith('self.') and r.count('.') == 1 and '(' not in r
                        res.append(Finding(ID, 'T8', '%s|%s' % (cx.label(fn), ot[0].rsplit('::', 1)[-1]), okd,
                                           'the observer waits the configured delay (%s)' % r if okd else
                                           'the delay the observer is built with is %s, not the operator\'s configured delay field unchanged: items are delivered earlier (or later) than the configured delay after they were produced' % r[:120],
                                           g.loc(n)))
    # each construction site is met once per node expression it is embedded in: keep one verdict per key (a failing one wins)
    t8 = {}
    for f in [x for x in res if x.rule == 'T8']:
        if f.key not in t8 or not f.ok:
            t8[f.key] = f
    res = [x for x in res if x.rule != 'T8'] + list(t8.values())
    if len(t8) < 2:
        res.append(Finding(ID, 'T8', 'floor', False, 'expected the construction sites of DelayObserver and DelayObserverThreads, found %d' % len(t8)))
    return res


def t5(cx, prop=None, rule='T5'):
    """ownership of the shared composite: an operator observer only ever *adds* task handles to the MultiSubscription it shares
    with the subscription handed back to the subscriber; only the subscriber may unsubscribe it. If the observer closes it,
    every handle appended afterwards (e.g. the task carrying the terminal) is torn down at once."""
    from ..core import UNSUB_NAMES, recv_class
    F = cx.facts
    res = []
    n = 0
    for im in cx.observer_impls():
        tag = roles.impl_tag(cx, im)
        multis = [f for f, t in roles.adt_fields(cx, tag) if F.adt_path(t) in ('subscription::MultiSubscription', 'subscription::MultiSubscriptionThreads')]
        if not multis:
            continue
        for meth in ('next', 'error', 'complete'):
            fn = cx.method(im, meth)
            g = cx.graph(fn['key'])
            n += 1
            def through_clone(e):
                e = strip(e)
                while e[0] == 'call' and e[1] == 'std::clone::Clone::clone' and e[2]:
                    e = strip(e[2][0])
                return e
            bad = [x for x in g.nodes if x['kind'] in ('call', 'enter') and not x['ctx'] and x['name'] in UNSUB_NAMES and x['args'] and
                   recv_class(through_clone(x['args'][0])).split('.')[-1] in multis]
            res.append(Finding(prop or ID, rule, cx.label(fn), not bad,
                               'only appends to the shared composite' if not bad else
                               'the observer unsubscribes the composite it shares with the returned subscription: handles appended afterwards (the task that carries the terminal) are cancelled at once, so the terminal is lost',
                               g.loc(bad[0]) if bad else fn['span'], [node_desc(g, x) for x in bad]))
    if not cx.control and n < 18:
        res.append(Finding(prop or ID, rule, 'floor', False, 'expected >= 18 observer methods sharing a composite, found %d' % n))
    return res


def t6(cx):
    """timers are armed inside the spawned future, not by schedule() itself"""
    from ..expr import walk
    F = cx.facts
    res = []
    n = 0
    for im in F.impls_of('scheduler::Scheduler'):
        fn = F.impl_fn(im, 'schedule')
        if fn is None:
            continue
        if cx.control:
            continue
        n += 1
        g = cx.graph(fn['key'])
        bad = None
        for x in g.nodes:
            if x['kind'] in ('call', 'enter') and x['name'].endswith('new_timer'):
                bad = x
            elif x['kind'] in ('call', 'enter'):
                for a in x['args']:
                    if any(e[0] == 'fn' and str(e[2]).endswith('new_timer') for e in walk(a)):
                        bad = x
        res.append(Finding(ID, 'T6', cx.label(fn), not bad,
                           'schedule() arms the delay timer itself: the delay then counts from scheduling instead of from the first poll, an expired later task runs before an earlier one that is re-queued, and items of one delay operator change order when the scheduler is busy'
                           if bad else 'the timer is armed inside the task future', g.loc(bad) if bad else fn['span']))
    if not cx.control and n < 2:
        res.append(Finding(ID, 'T6', 'floor', False, 'expected >= 2 Scheduler impls, found %d' % n))
    return res


def t7(cx):
    """next/error/complete of the operators that keep their task handles in a MultiSubscription never call is_closed() on those
    handles: Remote::poll holds the handle cell while the task (and the downstream callback in it) runs, so an item fed back from
    that callback would block on the very handle that is executing"""
    from ..core import IS_CLOSED_NAMES
    F = cx.facts
    res = []
    if cx.control:
        return res
    n = 0
    for im in cx.observer_impls():
        tag = roles.impl_tag(cx, im)
        comp = [f for f, t in roles.adt_fields(cx, tag) if 'MultiSubscription' in F.tystr(t)]
        if not comp:
            continue
        for meth in ('next', 'error', 'complete'):
            fn = cx.method(im, meth)
            g = cx.graph(fn['key'])
            n += 1
            bad = [x for x in g.nodes if x['kind'] in ('call', 'enter') and (x['name'] in IS_CLOSED_NAMES) and x['args'] and
                   any(recv_class(x['args'][0]) == 'self.' + c or mentions(x['args'][0], lambda e, c=c: e[0] == 'field' and e[2] == c) for c in comp)]
            res.append(Finding(ID, 'T7', cx.label(fn), not bad,
                               'asks its own task handles for is_closed() while handling a notification: the handle of the task that is running right now is locked (Remote::poll), so an item produced from inside a downstream callback blocks for ever and nothing more is delivered'
                               if bad else 'does not query its task handles', g.loc(bad[0]) if bad else fn['span']))
    if n < 6:
        res.append(Finding(ID, 'T7', 'floor', False, 'expected the delay/observe_on observers, found %d methods' % n))
    return res
