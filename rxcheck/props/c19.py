"""C19 — scheduled tasks: at most once, never early, stay cancelled (DESIGN §3 C19)."""
from ..core import (Finding, explore, witness, ret_states, lock_scopes, sw_value, mentions, node_desc, interesting_default, recv_class, const_bool)
from ..expr import access_path, strip, render
from .. import roles

ID = 'C19'
LEVEL = 'other'
EXPLANATION = ('Static rules on scheduler.rs: H1 OnceTask/FutureTask call their task function on arguments take()n out of an Option (a second '
               'poll cannot re-run it); H2 in every Scheduler::schedule coroutine the timer for Some(delay) is awaited to Ready before the '
               'first poll of the task; H3 Remote::poll reads keep_running and polls the task under one guard of the handle cell and '
               'TaskHandle::unsubscribe clears the flag under the same cell (after unsubscribe returns the body neither runs nor starts); '
               'H5 value=Some is written only by Remote::poll after the inner future is Ready, so a handle reports closed only when the '
               'task can no longer act; H6 all schedule impls are instances of one macro. H4 repeating tasks tick only after a Ready period timer that is re-armed with the period each time, count seq by +1 and stop when the task declines (same rules as C08.I1/I2, C16.E3). '
               'H7 task handles registered with a MultiSubscription are let go only by unsubscribing them (same rule as C17.K6), so a cancelled pipeline cannot leave a task that still starts. '
               'H8 a stored task handle is overwritten only when it is known to be absent or closed, or after it was taken out and unsubscribed: dropping a TaskHandle does not cancel its task, so an overwritten pending handle leaves a task that unsubscribe() can no longer reach. '
               'H10 every TaskHandle obtained from Scheduler::schedule in an operator is stored where the returned subscription finds it (same rule as C02.U1 for the scheduling functions): a dropped handle leaves a task that still starts after unsubscribe(). '
               'H9 the _at sources hand the scheduler exactly deadline - now as the delay (same rule as C07.T2), so a repeating task cannot start before the requested instant. '
               'Does not decide virtual-time run orders.')
ASSUMPTIONS = ['the timer future returned by new_timer completes no earlier than its duration (trusted dependency)']

CONTROLS = [
    'H1|<verif_controls::RerunTask<Args> as Future>::poll',
    'H3|<verif_controls::UnlockedRemote<Fut> as Future>::poll',
    'H8|<verif_controls::OverwritingHandles<SD> as Observer>::next',
]


def _is_ready(e):
    e = strip(e)
    return e[0] == 'agg' and e[2].endswith('Poll::Ready')


def check(cx):
    F = cx.facts
    res = []
    res += h1(cx) + h3(cx)
    if not cx.control:
        res += h2(cx) + h5(cx) + h6(cx) + h4(cx) + h7(cx) + h10(cx)
    res += h8(cx)
    if not cx.control:
        from . import c07
        for f in c07.t2(cx):
            if f.key.startswith(('observable::interval::', 'observable::timer::')):
                res.append(Finding(ID, 'H9', f.key, f.ok, f.msg, f.loc, f.witness))
    return res


def h10(cx):
    """a scheduled task stays reachable through its handle: every TaskHandle a notification handler or actual_subscribe obtains from
    Scheduler::schedule is stored where the subscription handed to the caller finds it (same rule as C02.U1, restricted to the
    functions that schedule tasks) — a dropped TaskHandle does not cancel its task, which then still starts after unsubscribe()"""
    from . import c02
    sched = set()
    for fn in c02._roots(cx):
        g = cx.graph(fn['key'])
        if any(n['kind'] in ('call', 'enter') and not n['ctx'] and n['name'] == c02.SCHEDULE for n in g.nodes):
            sched.add(cx.label(fn))
    out = []
    for f in c02.u1(cx):
        if f.key in sched and (f.ok or 'task handle' in f.msg):
            out.append(Finding(ID, 'H10', f.key, f.ok, f.msg, f.loc, f.witness))
    if len(out) < 10:
        out.append(Finding(ID, 'H10', 'floor', False, 'expected >= 10 functions that schedule tasks, found %d' % len(out)))
    return out


def h7(cx):
    """a task stays cancellable for as long as it can act: the composite that operators register their task handles with
    lets go of a handle only by unsubscribing it (same rule as C17.K6) — a dropped TaskHandle no longer cancels its task"""
    from . import c17
    return [Finding(ID, 'H7', f.key, f.ok, f.msg, f.loc, f.witness) for f in c17.k6(cx)]


def h1(cx):
    F = cx.facts
    res = []
    n = 0
    for im in F.impls_of('futures::Future'):
        tag = roles.impl_tag(cx, im)
        if tag not in ('scheduler::OnceTask', 'scheduler::FutureTask') and not (cx.control and tag == 'verif_controls::RerunTask'):
            continue
        n += 1
        fn = F.impl_fn(im, 'poll')
        g = cx.graph(fn['key'], forward=True)      # (a `take_args(slot)` helper is the take() it wraps)
        label = cx.label(fn)
        from ..core import own_fnptr_call
        calls = [x for x in g.nodes if own_fnptr_call(x)]   # (also inside a closure given to Poll::map)
        ok = len(calls) == 1
        msg = 'task function runs on arguments taken out of the Option slot'
        for x in calls:
            taken = any(mentions(a, lambda e: e[0] == 'call' and e[1] == 'std::option::Option::take') for a in x['args'])
            if not taken:
                ok = False
                msg = 'the task function is called on arguments that stay in place: polling the task again would run it a second time'
        if not calls:
            msg = 'no call of the task function pointer found'
        res.append(Finding(ID, 'H1', label, ok, msg, fn['span'], [node_desc(g, x) for x in calls]))
    if not cx.control and n < 2:
        res.append(Finding(ID, 'H1', 'floor', False, 'OnceTask/FutureTask poll impls not found'))
    return res


def h2(cx):
    """never early: coroutine bodies of Scheduler::schedule (pre-transform MIR)"""
    F = cx.facts
    res = []
    # the task futures: every coroutine (async block / async fn body) that a Scheduler::schedule builds, directly or through a helper
    from ..expr import walk as _walk
    cor_ids = set()
    impls_with_future = 0
    for im0 in F.impls_of('scheduler::Scheduler'):
        fn0 = F.impl_fn(im0, 'schedule')
        if fn0 is None:
            continue
        g0 = cx.graph(fn0['key'])
        before0 = len(cor_ids)
        mine0 = set()
        for n0 in g0.nodes:
            for e0 in list(n0.get('args') or []) + [n0.get('rhs')]:
                if e0 is None:
                    continue
                for x0 in _walk(e0):
                    if x0[0] == 'agg' and x0[1] in ('coroutine', 'coroutine_closure'):
                        cor_ids.add(x0[2])
                        mine0.add(x0[2])
        impls_with_future += 1 if mine0 else 0
    cors = [fn for fn in F.fns.values() if fn['kind'] == 'coroutine' and (fn['key'] in cor_ids or fn.get('def') in cor_ids)]
    for fn in sorted(cors, key=lambda f: f['key']):
        g = cx.graph(fn['key'])
        label = cx.label(fn)
        timer_vals = set()

        def poll_kind(n):
            if n['kind'] == 'call' and n['name'] == 'futures::Future::poll' and n['callee'] and n['callee'].get('a'):
                t = F.ty(n['callee']['a'][0])
                return 'task' if t['k'] == 'param' else 'timer'
            return None
        timer_polls = {strip(n['value']) for n in g.nodes if poll_kind(n) == 'timer'}

        def step(st, n, lab):
            branch, timer, ready = st
            d, v = sw_value(lab)
            if d is not None:
                dd = strip(d)
                if dd[0] == 'discr':
                    inner = strip(dd[1])
                    root, steps = access_path(inner)
                    if steps and root[0] == 'arg' and branch is None and inner not in timer_polls and not any(st.startswith('as ') for st in steps):
                        # the first branch on a captured Option (the delay, or a timer armed for it)
                        branch = 'none' if v == 0 else 'some'
                    if inner in timer_polls and v == 0:
                        ready = True
            if n['kind'] in ('call', 'enter') and n['name'].endswith('new_timer'):
                timer = True
            if poll_kind(n) == 'timer' and n['args']:
                if mentions(n['args'][0], lambda x: x[0] == 'variant' and x[2] == 'Some' and access_path(x[1])[0][0] == 'arg'):
                    timer = True      # a timer future that was captured inside the Option the branch was taken on
            if poll_kind(n) == 'task':
                if not (branch == 'none' or (timer and ready)):
                    return ('EARLY', timer, ready)
            return (branch, timer, ready)
        reached, pred = explore(g, (None, False, False), step)
        bad = [k for k in reached if k[1][0] == 'EARLY']
        tasks = [n for n in g.nodes if poll_kind(n) == 'task']
        if bad or not tasks:
            res.append(Finding(ID, 'H2', label, False, 'the task can be polled before the delay timer completed (or no task poll found): it would run earlier than its delay',
                               fn['span'], witness(g, pred, bad[0], interesting_default) if bad else []))
        else:
            res.append(Finding(ID, 'H2', label, True, 'Some(delay): new_timer(delay) awaited to Ready before the first poll of the task', fn['span']))
    # ... and what that task future captures is what schedule() was given: the delay (and the task) reach the coroutine unmodified —
    # a delay filtered, rounded or defaulted on the way (`delay.filter(|d| d.as_millis() > 0)`) makes "Some(delay)" above a different delay
    from ..expr import walk
    m = 0
    for im in F.impls_of('scheduler::Scheduler'):
        fn = F.impl_fn(im, 'schedule')
        if fn is None:
            continue
        g = cx.graph(fn['key'])
        caps = []
        for n in g.nodes:
            for e in list(n.get('args') or []) + [n.get('rhs')]:
                if e is None:
                    continue
                for x in walk(e):
                    if x[0] == 'agg' and x[1] in ('coroutine', 'coroutine_closure') and x not in caps:
                        caps.append(x)
        if not caps:
            continue
        m += 1
        badc = [o for c in caps for o in c[3] if strip(o)[0] != 'arg']
        res.append(Finding(ID, 'H2', cx.label(fn) + '|captures', not badc,
                           'the task future captures the delay and the task exactly as they were passed to schedule()' if not badc else
                           'the task future does not capture what schedule() was given but %s: the delay that is awaited is not the delay that was asked for' % render(badc[0])[:90],
                           fn['span']))
    if m < 2:
        res.append(Finding(ID, 'H2', 'floor:captures', False, 'expected >= 2 schedule() bodies that build a task future, found %d' % m))
    if impls_with_future < 2 or not cors:
        res.append(Finding(ID, 'H2', 'floor', False, 'expected >= 2 Scheduler::schedule impls that build a task future, found %d (%d coroutine bodies)' % (impls_with_future, len(cors))))
    return res


def _handle_fields(cx):
    """(flag field, value field) of scheduler::HandleInfo by type: the bool and the Option"""
    F = cx.facts
    if cx.control:
        return 'keep_running', 'value'
    flag = roles.field_where(cx, 'scheduler::HandleInfo', lambda t, ti: t['s'] == 'bool', 'keep-running flag')
    val = roles.field_where(cx, 'scheduler::HandleInfo', lambda t, ti: roles.is_option_of(F, t), 'task result')
    return flag, val


def h3(cx):
    F = cx.facts
    res = []
    n = 0
    FLAG, VALUE = _handle_fields(cx)
    for im in F.impls_of('futures::Future'):
        tag = roles.impl_tag(cx, im)
        if tag != 'scheduler::Remote' and not (cx.control and tag == 'verif_controls::UnlockedRemote'):
            continue
        n += 1
        fn = F.impl_fn(im, 'poll')
        g = cx.graph(fn['key'])
        label = cx.label(fn)
        held = lock_scopes(g)
        polls = [x for x in g.nodes if x['kind'] == 'call' and x['name'] == 'futures::Future::poll']
        reads = [x for x in g.nodes if x['kind'] == 'switch' and access_path(x['discr'])[1][-1:] == [FLAG]]
        ok = bool(polls) and bool(reads)
        msg = 'keep_running is read and the task polled under one guard of the handle cell'
        for x in polls:
            hs = [h for h in held[x['id']] if h[2] == 'W']
            if not hs:
                ok = False
                msg = 'the task is polled without holding the handle cell: unsubscribe() can return while the task body is still running'
            else:
                gv = strip(hs[0][0])
                for r in reads:
                    if not mentions(r['discr'], lambda e: strip(e) == gv):
                        ok = False
                        msg = 'keep_running is not read through the guard that is held while polling'
        # the cancelled branch returns Ready without polling
        if ok:
            for r in reads:
                for m, k, lab in g.succs(r['id']):
                    d, v = sw_value(lab)
                    if v == 0:
                        from ..core import reachable
                        seen = reachable(g, [m])
                        if any(g.nodes[s] in polls for s in seen):
                            ok = False
                            msg = 'the cancelled branch (keep_running == false) can still poll the task'
        if not polls or not reads:
            msg = 'no inner poll / keep_running read found'
        res.append(Finding(ID, 'H3', label, ok, msg, fn['span']))
    if cx.control:
        return res
    if n < 1:
        res.append(Finding(ID, 'H3', 'floor', False, 'Remote::poll not found'))
    m = 0
    for im in F.impls_of('subscription::Subscription'):
        if roles.impl_tag(cx, im) != 'scheduler::TaskHandle':
            continue
        fn = F.impl_fn(im, 'unsubscribe')
        g = cx.graph(fn['key'])
        m += 1
        ws = [x for x in g.nodes if x['kind'] == 'assign' and access_path(x['lhs'])[1][-1:] == [FLAG]]
        ok = bool(ws) and all(const_bool(x['rhs']) is False and '@' in access_path(x['lhs'])[1] and access_path(x['lhs'])[1][0] == '0' for x in ws)
        from ..core import lang_check
        must = lang_check(g, 'clear', lambda x: ('clear',) if x in ws else None, exact=True, empty_ok=False)
        res.append(Finding(ID, 'H3', cx.label(fn), ok and not must, 'clears keep_running through the guard of the handle cell on every path' if ok and not must else
                           'unsubscribe does not clear keep_running under the handle cell on every path', fn['span']))
    if m < 2:
        res.append(Finding(ID, 'H3', 'floor2', False, 'expected 2 TaskHandle Subscription impls, found %d' % m))
    return res


def h5(cx):
    F = cx.facts
    res = []
    writers = []
    FLAG, VALUE = _handle_fields(cx)
    for fn in F.fns.values():
        if not fn['key'].startswith(F.crate + '::scheduler'):
            continue
        g = cx.graph(fn['key'], inline=False)
        for x in g.nodes:
            if x['kind'] == 'assign':
                root, steps = access_path(x['lhs'])
                r = strip(x['rhs'])
                if steps[-1:] == [VALUE] and '@' in steps and r[0] == 'agg' and r[2].endswith('Option::Some'):
                    writers.append((fn, g, x))
    labels = sorted({roles.stable_label(cx, f) for f, g, x in writers})      # generic-free, private names by role
    ok = labels == ['<scheduler::Remote as Future>::poll']
    res.append(Finding(ID, 'H5', 'writers of HandleInfo.value', ok, 'value = Some(..) is written only by %s' % labels, writers[0][0]['span'] if writers else ''))
    for f, g, x in writers:
        # the stored value is the Ready payload of the inner poll
        okv = mentions(x['rhs'], lambda e: e[0] == 'variant' and e[2] == 'Ready')
        res.append(Finding(ID, 'H5', cx.label(f) + '|payload', okv, 'stores the Ready output of the inner future' if okv else 'value is stored before the inner future is Ready', g.loc(x)))
    for im in F.impls_of('subscription::Subscription'):
        if roles.impl_tag(cx, im) != 'scheduler::TaskHandle':
            continue
        fn = F.impl_fn(im, 'is_closed')
        g = cx.graph(fn['key'])
        label = cx.label(fn)
        if 'NormalReturn' in im['self_s']:
            isome = [x for x in g.nodes if x['kind'] == 'call' and x['name'] == 'std::option::Option::is_some' and access_path(x['args'][0])[1][-1:] == [VALUE]]
            res.append(Finding(ID, 'H5', label, len(isome) == 1, 'closed = value.is_some()' if isome else 'NormalReturn handle does not answer from value.is_some()', fn['span']))
        else:
            consts = [x for x in g.nodes if x['kind'] == 'assign' and not x['ctx'] and x['lhs'][0] == 'local' and x['lhs'][1] == 0 and const_bool(x['rhs']) is True]
            res.append(Finding(ID, 'H5', label, not consts, 'answers true only through the produced subscription' if not consts else 'SubscribeReturn handle answers a constant true', fn['span']))
    return res


def h6(cx):
    F = cx.facts
    res = []
    ims = F.impls_of('scheduler::Scheduler')
    # the one macro (by whatever name) that every schedule() is an instance of
    sets = [set(e['m'] for e in (F.impl_fn(im, 'schedule') or {}).get('expn', [])) for im in ims]
    shared = set.intersection(*sets) if sets else set()
    for im in sorted(ims, key=lambda i: i['self_s']):
        fn = F.impl_fn(im, 'schedule')
        macros = [e['m'] for e in fn.get('expn', [])]
        ok = bool(shared) and any(m in shared for m in macros)
        res.append(Finding(ID, 'H6', cx.label(fn), ok, 'instance of the shared macro %s!' % sorted(shared)[:1] if ok else 'hand-written schedule(): not an instance of the shared macro', fn['span']))
    if len(ims) < 2:
        res.append(Finding(ID, 'H6', 'floor', False, 'expected >= 2 Scheduler impls, found %d' % len(ims)))
    return res


def thorough():
    from ..witness import run_witnesses
    return run_witnesses(ID, ['w4'])


def h4(cx):
    """repeating tasks: once per period with consecutive sequence numbers until they decline (same rules as C08.I1/I2 and C16.E3)"""
    from . import c08, c16
    out = []
    for f in c08.i12(cx) + c16.e3(cx):
        out.append(Finding(ID, 'H4', f.rule + ':' + f.key, f.ok, f.msg, f.loc, f.witness))
    return out


def h8(cx):
    """handle cells (MutRc|MutArc<Option<TaskHandle>>) are only overwritten when the old handle is absent / closed / was cancelled"""
    from ..core import TAKE, UNSUB_NAMES, IS_CLOSED_NAMES, recv_class
    F = cx.facts
    res = []
    n = 0
    is_handle_cell = lambda t: roles.is_cell_of(F, t, lambda o: roles.is_option_of(F, o, lambda x: x['k'] == 'adt' and x['p'] == 'scheduler::TaskHandle'))
    for im in cx.observer_impls():
        tag = roles.impl_tag(cx, im)
        if cx.control != ('verif_controls' in tag):
            continue
        cells = [f for f, t in roles.adt_fields(cx, tag) if is_handle_cell(F.ty(t))]
        if not cells:
            continue
        for meth in ('next', 'error', 'complete'):
            fn = cx.method(im, meth)
            g = cx.graph(fn['key'])
            for cell in cells:
                cls = 'self.' + cell
                stores = [x for x in g.nodes if x['kind'] == 'assign' and recv_class(x['lhs']) == cls and access_path(x['lhs'])[1][-1:] == ['@'] and
                          strip(x['rhs'])[0] == 'agg' and strip(x['rhs'])[2].endswith('Option::Some')]
                if not stores:
                    continue
                n += 1
                unsub_taken = any(x['kind'] in ('call', 'enter') and x['name'] in UNSUB_NAMES and x['args'] and recv_class(x['args'][0]) == cls and '!take' in access_path(x['args'][0])[1] for x in g.nodes)

                def cond_kind(e):
                    """+1: e true implies the old handle is absent/closed; -1: e false implies it; 0: says nothing"""
                    dd = strip(e)
                    neg = 1
                    while dd[0] == 'un' and dd[1] == 'Not':
                        dd = strip(dd[2])
                        neg = -neg
                    if dd[0] == 'discr' and recv_class(dd[1]) == cls:
                        return -neg           # discriminant 0 (None) is the safe outcome
                    if dd[0] == 'call' and dd[2] and recv_class(dd[2][0]) == cls:
                        tail = dd[1].rsplit('::', 1)[-1]
                        if tail == 'map_or' and len(dd[2]) > 1 and const_bool(dd[2][1]) is True:
                            return neg
                        if tail == 'is_none' or dd[1] in IS_CLOSED_NAMES or tail == 'is_closed':
                            return neg
                        if tail == 'is_some':
                            return -neg
                    return 0

                def step(st, x, lab):
                    state, marks = st
                    if state == 'BAD':
                        return None
                    d, v = sw_value(lab)
                    if d is not None and v in (0, 1):
                        dd = strip(d)
                        par = 1
                        while dd[0] == 'un' and dd[1] == 'Not':
                            dd = strip(dd[2])
                            par = -par
                        key = ('L', dd[1]) if dd[0] == 'local' else (('C', dd[3]) if dd[0] == 'call' else None)
                        md = dict(marks)
                        k = md.get(key, 0) * par if key in md else cond_kind(d)
                        if (k == 1 and v == 1) or (k == -1 and v == 0):
                            state = 'safe'
                    if x['kind'] == 'assign' and x['lhs'][0] == 'local':
                        k = cond_kind(x['rhs'])
                        if k == 0 and const_bool(x['rhs']) is not None and state == 'safe':
                            k = 1 if const_bool(x['rhs']) else -1     # a constant answer given on a path that already knows
                        key = ('L', x['lhs'][1])
                        marks = tuple(sorted([m for m in marks if m[0] != key] + ([(key, k)] if k else []), key=repr))
                    if x['kind'] in ('exit', 'call') and x.get('value') and x.get('dest') and x['dest'][0] == 'local':
                        k = cond_kind(x['value'])
                        key = ('L', x['dest'][1])
                        marks = tuple(sorted([m for m in marks if m[0] != key] + ([(key, k)] if k else []), key=repr))
                    if x['kind'] == 'exit' and x.get('value') and x['value'][0] == 'call' and x.get('body'):
                        L = ('L', (x['ctx'] + ((x['fn'], x['bb'], x['body']),), 0))
                        md = dict(marks)
                        ck = ('C', x['value'][3])
                        marks = tuple(sorted([m for m in marks if m[0] != ck] + ([(ck, md[L])] if L in md else []), key=repr))
                    if x['kind'] == 'call' and x['name'] in TAKE and x['args'] and recv_class(x['args'][0]) == cls and unsub_taken:
                        state = 'safe'
                    if x in stores:
                        return ('BAD', ()) if state != 'safe' else ('stored', marks)
                    return (state, marks)
                reached, pred = explore(g, ('start', ()), step)
                bad = [k for k in reached if k[1][0] == 'BAD']
                res.append(Finding(ID, 'H8', cx.label(fn), not bad,
                                   'a new task handle is stored over `%s` on a path that has not shown the old handle to be absent or closed and has not cancelled it: the old task can no longer be cancelled and still runs after unsubscribe()' % cell
                                   if bad else 'the handle in `%s` is replaced only when absent / closed / cancelled' % cell,
                                   fn['span'], witness(g, pred, bad[0], interesting_default) if bad else None))
    if not cx.control and n < 2:
        res.append(Finding(ID, 'H8', 'floor', False, 'expected the debounce and throttle handle cells, found %d' % n))
    return res
