"""C14 — conversions and completion status report the outcome and never hang (DESIGN §3 C14)."""
from ..core import (Finding, lang_check, explore, witness, ret_states, down_method, sw_value, interesting_default, node_desc, mentions)
from ..expr import strip, render, access_path
from ..core import const_bool
from .. import roles

ID = 'C14'
LEVEL = 'other'
EXPLANATION = ('Static rules on the conversion sinks and the completion status: R1 every terminal method of the to_future/to_stream observers '
               'sends at least one message on every path; R2 the stream ends after a terminal (end marker sent, or poll_next maps the closed '
               'channel to Ready(None) and constructs Pending only by propagating the inner poll); R3 StatusFuture::poll registers its waker '
               'before the flag read that decides Pending (no lost wake-up); R4 the producer stores the flag before wake(), after the '
               'downstream terminal; R5 future observer complete = send then close; R12 next()/is_finished() of the status observer never write the flag nor wake (only a terminal of the source publishes a status); R11 collect adds every item to its collection and emits it on every completing path, also for an empty source (same rule as C03.S10); R10 the values complete()/error() store into the status flag (and its initial value) are read by is_closed/is_completed/error_occur as documented (truth table over the three flag values; wait_for_end decides through is_closed); R7 the sinks report finished only when the waiting side dropped the channel (otherwise a hot source skips them at its terminal and the future never resolves); R6 the message sent by error() carries the err argument on every path (the outcome reported is the error of the source). Decides the hand-off protocol; does not decide which '
               'value is produced (Empty/MultipleValues logic).')
ASSUMPTIONS = ['futures unbounded channel and AtomicWaker behave as documented (a message sent before the sender is dropped is received; wake() after register() wakes)']

SINKS = {
    'ops::future::ObservableFutureObserver': 'future',
    'ops::stream::ObservableStreamObserver': 'stream',
}
CONTROLS = [
    'R1|<verif_controls::SilentErrorSink<T, E> as Observer>::error',
    'R3|<verif_controls::CheckThenRegister as Future>::poll',
    'R4|<verif_controls::WakeBeforeStore<O> as Observer>::complete',
    'R6|<verif_controls::LossyErrorSink<T, E> as Observer>::error',
    'R7|<verif_controls::EagerFinishedSink<T> as Observer>::is_finished',
    'R8|<verif_controls::CtlStatus3>::announce',
]
CONTROLS_OK = ['R3|<verif_controls::RegisterThenCheck as Future>::poll']


def _tail(n, *names):
    return n['kind'] in ('call', 'enter') and n['name'].rsplit('::', 1)[-1] in names


def _send_ev(n):
    if _tail(n, 'unbounded_send', 'start_send', 'try_send', 'send'):
        return ('send',)
    if _tail(n, 'close_channel'):
        return ('close',)
    return None


def check(cx):
    _env_wrapped = True
    from . import c03
    return _check_own(cx) + c03.envelopes(cx, ID)


def _check_own(cx):
    return r1_r5(cx) + r2(cx) + r3(cx) + r4(cx) + r6(cx) + r7(cx) + r8(cx) + r9(cx) + r10(cx) + r11(cx) + r12(cx)


def r1_r5(cx):
    F = cx.facts
    res = []
    found = 0
    for im in cx.observer_impls():
        tag = roles.impl_tag(cx, im)
        kind = SINKS.get(tag)
        if kind is None and not (cx.control and tag.startswith('verif_controls::') and 'Sink' in tag):
            continue
        found += 1
        for meth in ('error', 'complete'):
            fn = cx.method(im, meth)
            g = cx.graph(fn['key'])
            label = cx.label(fn)
            bad = lang_check(g, 'send send* close?', _send_ev, exact=True, empty_ok=False)
            if bad:
                res.append(Finding(ID, 'R1', label, False,
                                   'the terminal is not handed to the waiting side on every path (the future/stream would stay pending forever): ' + bad[0], fn['span'], bad[1]))
            else:
                res.append(Finding(ID, 'R1', label, True, 'sends at least one message on every path', fn['span']))
        if kind == 'future':
            fn = cx.method(im, 'complete')
            g = cx.graph(fn['key'])
            bad = lang_check(g, 'send close', _send_ev, exact=True, empty_ok=False)
            res.append(Finding(ID, 'R5', cx.label(fn), not bad, bad[0] if bad else 'complete = send the result, then close the channel', fn['span'], bad[1] if bad else None))
    if not cx.control and found < 2:
        res.append(Finding(ID, 'R1', 'floor', False, 'conversion sink observers not found (%d of 2)' % found))
    return res


def _is_pending(e):
    e = strip(e)
    return e[0] == 'agg' and e[2].endswith('Poll::Pending')


def r2(cx):
    """to_stream ends after a terminal"""
    F = cx.facts
    res = []
    obs = [im for im in cx.observer_impls() if roles.impl_tag(cx, im) == 'ops::stream::ObservableStreamObserver']
    streams = [im for im in F.impls_of('futures::Stream') if roles.impl_tag(cx, im) == 'ops::stream::ObservableStream']
    if cx.control:
        return res
    if not obs or not streams:
        return [Finding(ID, 'R2', 'floor', False, 'ObservableStream / ObservableStreamObserver not found')]
    # (a) every terminal sends the end marker
    marker_all = True
    for meth in ('error', 'complete'):
        fn = cx.method(obs[0], meth)
        g = cx.graph(fn['key'])
        sends = [n for n in g.nodes if _send_ev(n) == ('send',)]
        last_is_marker = bool(sends) and all(
            any(mentions(a, lambda x: x[0] == 'agg' and x[2].endswith('Message::Complete')) for a in n['args']) for n in sends[-1:])
        # the marker only guarantees the end of the stream when its send is checked: a send whose result is thrown away can
        # fail (the receiving side may have closed the channel already) and the stream would never learn it is over
        checked = bool(sends) and any(x['kind'] == 'call' and x['name'].rsplit('::', 1)[-1] in ('expect', 'unwrap') and x['args'] and
                                      mentions(x['args'][0], lambda e, v=strip(sends[-1]['value']): strip(e) == v) for x in g.nodes)
        if not (last_is_marker and checked):
            marker_all = False
    # (b) poll_next: Pending only propagated, closed channel -> Ready(None)
    fn = F.impl_fn(streams[0], 'poll_next')
    g = cx.graph(fn['key'])
    label = cx.label(fn)
    polls = [n for n in g.nodes if _tail(n, 'poll_unpin', 'poll_next', 'poll_next_unpin', 'poll')]
    vals = [n['value'] for n in polls]

    def step(st, n, lab):
        d, v = sw_value(lab)
        if d is not None and any(mentions(d, lambda x, val=val: x == val) for val in vals):
            dd = strip(d)
            if dd[0] == 'discr' and strip(dd[1]) in [strip(v_) for v_ in vals]:
                st = 'ready' if v == 0 else 'pending'
        if n['kind'] == 'assign' and not n['ctx'] and n['lhs'][0] == 'local' and n['lhs'][1] == 0 and _is_pending(n['rhs']) and st == 'ready':
            return 'bad'
        return st
    reached, pred = explore(g, 'start', step)
    bad = [(nid, st) for nid, st in reached if st == 'bad']
    ok_b = bool(polls) and not bad
    if marker_all or ok_b:
        res.append(Finding(ID, 'R2', label, True, 'the stream ends after a terminal (%s)' % ('every terminal sends the end marker' if marker_all else 'closed channel is mapped to Ready(None)'), fn['span']))
    else:
        w = witness(g, pred, bad[0], interesting_default) if bad else []
        res.append(Finding(ID, 'R2', label, False,
                           'error() sends the error item but no end marker, and poll_next answers Pending on the closed, drained channel: after yielding the error the stream never ends',
                           fn['span'], w))
    return res


def r3(cx):
    F = cx.facts
    res = []
    n = 0
    for im in F.impls_of('futures::Future'):
        tag = roles.impl_tag(cx, im)
        if tag != 'ops::complete_status::StatusFuture' and not (cx.control and tag.startswith('verif_controls::') and 'Register' in tag):
            continue
        n += 1
        fn = F.impl_fn(im, 'poll')
        g = cx.graph(fn['key'])
        label = cx.label(fn)

        def step(st, nd, lab):
            if _tail(nd, 'register'):
                return 'registered'
            if _tail(nd, 'load', 'compare_exchange', 'compare_exchange_weak', 'swap', 'fetch_add', 'fetch_or', 'fetch_and', 'fetch_update') and nd['kind'] == 'call':
                return 'checked_after_register' if st in ('registered', 'checked_after_register') else 'checked_unregistered'
            if nd['kind'] == 'assign' and not nd['ctx'] and nd['lhs'][0] == 'local' and nd['lhs'][1] == 0 and _is_pending(nd['rhs']):
                return 'PEND:' + st
            return st
        reached, pred = explore(g, 'start', step)
        bad = [(nid, st) for nid, st in ret_states(g, reached) if st.startswith('PEND:') and st != 'PEND:checked_after_register']
        if bad:
            res.append(Finding(ID, 'R3', label, False,
                               'returns Pending without re-reading the flag after registering the waker: a terminal arriving between the check and the register is never observed (wait_for_end blocks forever)',
                               fn['span'], witness(g, pred, bad[0], interesting_default)))
        else:
            res.append(Finding(ID, 'R3', label, True, 'flag is read after AtomicWaker::register on every Pending path', fn['span']))
    if not cx.control and n < 1:
        res.append(Finding(ID, 'R3', 'floor', False, 'StatusFuture not found'))
    return res


def r4(cx):
    res = []
    n = 0
    for im in cx.observer_impls():
        tag = roles.impl_tag(cx, im)
        if tag != 'ops::complete_status::StatusObserver' and not (cx.control and tag.startswith('verif_controls::WakeBeforeStore')):
            continue
        for meth in ('error', 'complete'):
            fn = cx.method(im, meth)
            g = cx.graph(fn['key'])
            n += 1

            def ev(nd):
                if down_method(nd) in ('error', 'complete'):
                    return ('down',)
                if _tail(nd, 'store', 'swap', 'fetch_add', 'fetch_or') and nd['kind'] == 'call':
                    return ('store',)
                if _tail(nd, 'wake', 'wake_by_ref') and nd['kind'] == 'call':
                    return ('wake',)
                return None
            rmw = [nd for nd in g.nodes if nd['kind'] == 'call' and _tail(nd, 'swap', 'fetch_add', 'fetch_or', 'compare_exchange')]
            wakes = [nd for nd in g.nodes if nd['kind'] == 'call' and _tail(nd, 'wake', 'wake_by_ref')]
            handshake = False
            if rmw and wakes:
                vals = {strip(nd['value']) for nd in rmw}
                handshake = any(nd['kind'] == 'switch' and mentions(nd['discr'], lambda x: strip(x) in vals) for nd in g.nodes)
            bad = lang_check(g, 'down store wake?' if handshake else 'down store wake', ev, exact=True, empty_ok=False)
            res.append(Finding(ID, 'R4', cx.label(fn), not bad,
                               ('status must be published as: downstream terminal, flag store, wake: ' + bad[0]) if bad else 'downstream terminal, then flag store, then wake',
                               fn['span'], bad[1] if bad else None))
    if not cx.control and n < 2:
        res.append(Finding(ID, 'R4', 'floor', False, 'StatusObserver terminal methods not found'))
    return res


def r12(cx):
    res = []
    # R12: only a terminal of the source publishes a status: next()/is_finished() of the status observer neither write the flag
    # nor wake the waiter (a downstream that finished early - take, first - is not the source having completed or failed)
    m = 0
    for im in cx.observer_impls():
        tag = roles.impl_tag(cx, im)
        if tag != 'ops::complete_status::StatusObserver':
            continue
        for meth in ('next', 'is_finished'):
            fn = cx.method(im, meth)
            if fn is None:
                continue
            g = cx.graph(fn['key'])
            m += 1
            wr = [nd for nd in g.nodes if nd['kind'] == 'call' and _tail(nd, 'store', 'swap', 'fetch_add', 'fetch_or', 'fetch_sub', 'fetch_xor', 'fetch_and', 'compare_exchange', 'wake', 'wake_by_ref')]
            res.append(Finding(ID, 'R12', cx.label(fn), not wr,
                               'does not publish a status' if not wr else 'publishes a status (%s) outside the terminal methods: the status reports completed / closed and wait_for_end returns while the source has neither completed nor failed' % wr[0]['name'].rsplit('::', 1)[-1],
                               g.loc(wr[0]) if wr else fn['span']))
    if not cx.control and m < 1:
        res.append(Finding(ID, 'R12', 'floor', False, 'StatusObserver::next not found'))
    return res


def r6(cx):
    """FLOW: the error handed to error() is what is sent to the waiting side — on every path the message sent
    contains the `err` argument, directly or through a cell it was stored into and that was not overwritten since"""
    from ..core import recv_class
    from ..expr import access_path
    res = []
    n = 0
    for im in cx.observer_impls():
        tag = roles.impl_tag(cx, im)
        if tag not in SINKS and not (cx.control and tag == 'verif_controls::LossyErrorSink'):
            continue
        n += 1
        fn = cx.method(im, 'error')
        g = cx.graph(fn['key'])
        label = cx.label(fn)

        def is_err(e, holders):
            return mentions(e, lambda x: (x[0] == 'arg' and x[1] == 2) or (x[0] in ('field', 'call', 'variant') and recv_class(x) in holders and recv_class(x) != 'self'))

        def step(st, nd, lab):
            holders, sent = st
            if sent == 'BAD':
                return None
            k = nd['kind']
            if k == 'assign':
                root, steps = access_path(nd['lhs'])
                if root[0] == 'arg' and root[1] == 1 and steps:
                    cls = recv_class(nd['lhs'])
                    if is_err(nd['rhs'], holders):
                        holders = holders | {cls}
                    else:
                        holders = holders - {cls}
            elif k == 'call' and nd['name'] in ('std::option::Option::replace', 'std::option::Option::insert', 'std::mem::replace') and len(nd['args']) > 1:
                cls = recv_class(nd['args'][0])
                if is_err(nd['args'][1], holders):
                    holders = holders | {cls}
                else:
                    holders = holders - {cls}
            if _send_ev(nd) == ('send',):
                if any(is_err(a, holders) for a in nd['args'][1:]):
                    sent = 'OK'
                elif sent != 'OK':
                    return (holders, 'BAD')
            return (holders, sent)
        reached, pred = explore(g, (frozenset(), None), step)
        bad = [k for k in reached if k[1][1] == 'BAD']
        res.append(Finding(ID, 'R6', label, not bad,
                           'the message sent carries the err argument on every path' if not bad else
                           'on some path the message sent on error() does not carry the source\'s error (it was overwritten or never stored): the future/stream reports a different outcome',
                           fn['span'], witness(g, pred, bad[0], interesting_default) if bad else None))
    if not cx.control and n < 2:
        res.append(Finding(ID, 'R6', 'floor', False, 'conversion sinks not found'))
    return res


def r7(cx):
    """the conversion sinks report finished only when the waiting side dropped the channel: a hot source (Subject, from_stream)
    skips subscribers that report finished when it terminates, so a sink that reports finished for any other reason never gets
    the terminal and the future/stream stays pending forever"""
    res = []
    n = 0
    for im in cx.observer_impls():
        tag = roles.impl_tag(cx, im)
        if tag not in SINKS and not (cx.control and tag == 'verif_controls::EagerFinishedSink'):
            continue
        n += 1
        fn = cx.method(im, 'is_finished')
        g = cx.graph(fn['key'])
        closed = [x for x in g.nodes if x['kind'] == 'call' and x['name'].rsplit('::', 1)[-1] == 'is_closed']
        other = [x for x in g.nodes if (x['kind'] == 'switch') or (x['kind'] == 'call' and x not in closed and x['name'].rsplit('::', 1)[-1] not in ('deref', 'as_ref'))
                 or (x['kind'] == 'assign' and not x['ctx'] and x['lhs'][0] == 'local' and x['lhs'][1] == 0 and strip(x['rhs'])[0] == 'const')]
        ok = len(closed) == 1 and not other
        res.append(Finding(ID, 'R7', cx.label(fn), ok,
                           'finished = the receiving side dropped the channel' if ok else
                           'is_finished() depends on more than the channel being closed: a hot source skips a subscriber that reports finished when it terminates, so the terminal never reaches the sink and the future/stream never resolves',
                           fn['span'], [node_desc(g, x) for x in other[:3]]))
    if not cx.control and n < 2:
        res.append(Finding(ID, 'R7', 'floor', False, 'conversion sinks not found'))
    return res


_WRITERS = ('store', 'swap', 'compare_exchange', 'compare_exchange_weak', 'fetch_add', 'fetch_sub', 'fetch_or', 'fetch_and', 'fetch_xor', 'fetch_update')
STATUS = {'ops::complete_status::CompleteStatus': ('ops::complete_status::StatusObserver', ('is_closed', 'is_completed', 'error_occur'))}


def _eval_pred(e, c):
    """value of a predicate expression when every atomic load in it yields the integer c (None = cannot tell)"""
    from ..core import const_int
    e = strip(e)
    if e[0] == 'call' and e[1].rsplit('::', 1)[-1] == 'load':
        return c
    if const_int(e) is not None:
        return const_int(e)
    if const_bool(e) is not None:
        return const_bool(e)
    if e[0] == 'un' and e[1] == 'Not':
        v = _eval_pred(e[2], c)
        return None if v is None else (not v)
    if e[0] == 'bin':
        a, b = _eval_pred(e[2], c), _eval_pred(e[3], c)
        if a is None or b is None:
            return None
        op = e[1]
        return {'Eq': a == b, 'Ne': a != b, 'Lt': a < b, 'Le': a <= b, 'Gt': a > b, 'Ge': a >= b, 'BitAnd': a & b if not isinstance(a, bool) else (a and b),
                'BitOr': a | b if not isinstance(a, bool) else (a or b)}.get(op)
    return None


def r8(cx):
    """the status flag means 'terminated' for every value its predicates accept; only the terminal methods of the status
    observer may write such a value. Any other writer (e.g. a waiter announcing itself) must write a value that every
    predicate still reads as 'running'"""
    from ..core import const_int
    F = cx.facts
    res = []
    table = {'verif_controls::CtlStatus3': (None, ('closed',))} if cx.control else STATUS
    n = 0
    for adt, (obs, preds) in table.items():
        fields = [f for f, t in roles.adt_fields(cx, adt) if F.tystr(t).startswith('std::sync::atomic::Atomic')]
        if len(fields) != 1:
            res.append(Finding(ID, 'R8', 'table:' + adt, False, 'expected exactly one atomic flag field'))
            continue
        flag = fields[0]
        pexpr = {}
        for fn in F.fns.values():
            im = F.impl_of_fn(fn)
            if im is not None and roles.impl_tag(cx, im) == adt and fn.get('name') in preds:
                g = cx.graph(fn['key'])
                rets = [x['rhs'] for x in g.nodes if x['kind'] == 'assign' and not x['ctx'] and x['lhs'][0] == 'local' and x['lhs'][1] == 0]
                if len(rets) == 1:
                    pexpr[fn['name']] = rets[0]
        # callers of helper functions
        callers = {}
        for fn in F.fns.values():
            for b in fn['blocks']:
                t = b['t']
                if t['k'] == 'call' and t['f']['o'] == 'const' and 'fn' in t['f']:
                    r = t['f']['fn'].get('res')
                    if r and r.get('d') in F.fns:
                        callers.setdefault(r['d'], set()).add(fn['key'])

        def is_terminal(fn, depth=0):
            im = F.impl_of_fn(fn)
            if im is not None and im.get('trait') == 'observer::Observer' and roles.impl_tag(cx, im) == obs and fn.get('name') in ('error', 'complete'):
                return True
            cs = callers.get(fn['key'])
            return bool(cs) and depth < 4 and all(is_terminal(F.fns[c], depth + 1) for c in cs)
        for fn in sorted(F.fns.values(), key=lambda f: f['key']):
            if fn['kind'] in ('coroutine',):
                continue
            g = cx.graph(fn['key'], inline=False)
            for x in g.nodes:
                if x['kind'] != 'call' or not x['name'].startswith('std::sync::atomic::') or x['name'].rsplit('::', 1)[-1] not in _WRITERS or not x['args']:
                    continue
                root, steps = access_path(x['args'][0])
                plain = [st for st in steps if not st.startswith(('@', '!', 'as ', '['))]
                if not plain or plain[-1] != flag:
                    continue
                if cx.control != ('verif_controls' in fn['key']):
                    continue
                if not cx.control and 'complete_status' not in fn['file']:
                    continue
                n += 1
                label = cx.label(fn)
                if is_terminal(fn):
                    res.append(Finding(ID, 'R8', label, True, 'terminal method (or a helper only they call) writes the flag', g.loc(x)))
                    continue
                tail = x['name'].rsplit('::', 1)[-1]
                vexpr = x['args'][2] if tail.startswith('compare_exchange') and len(x['args']) > 2 else (x['args'][1] if len(x['args']) > 1 else None)
                c = const_int(vexpr) if vexpr is not None else None
                verdicts = {p: (_eval_pred(e, c) if c is not None else None) for p, e in pexpr.items()}
                wrong = [p for p, v in verdicts.items() if v is True]
                if wrong:
                    res.append(Finding(ID, 'R8', label, False,
                                       'writes %s into the status flag although the source has not terminated, and %s() reads that value as terminated: the status '
                                       'reports completed/closed for a source that is still running' % (c, wrong[0]), g.loc(x), [node_desc(g, x)]))
                else:
                    res.append(Finding(ID, 'R8', label, True, 'non-terminal writer stores a value every predicate reads as running (or the value cannot be resolved statically)', g.loc(x)))
    if not cx.control and n < 1:
        res.append(Finding(ID, 'R8', 'floor', False, 'no writer of the status flag found'))
    return res


# what each status query must answer in the three states of the flag (the documented meaning of the queries)
STATUS_MEANING = {
    'is_closed': {'running': False, 'complete': True, 'error': True},
    'is_completed': {'running': False, 'complete': True, 'error': False},
    'error_occur': {'running': False, 'complete': False, 'error': True},
}


def r10(cx):
    """complete_status reports the real outcome: the values complete() and error() of the status observer store into the flag (and
    the value it starts with) are read by is_closed / is_completed / error_occur as their documentation says — a truth table over
    the three values the flag can hold; wait_for_end decides through is_closed, so an outcome it does not recognise hangs the waiter"""
    from ..core import const_int
    F = cx.facts
    res = []
    if cx.control:
        return res
    for adt, (obs, preds) in STATUS.items():
        fields = [f for f, t in roles.adt_fields(cx, adt) if F.tystr(t).startswith('std::sync::atomic::Atomic')]
        if len(fields) != 1:
            res.append(Finding(ID, 'R10', 'table:' + adt, False, 'expected exactly one atomic flag field'))
            continue
        flag = fields[0]

        def flag_store(x):
            if x['kind'] != 'call' or not x['name'].startswith('std::sync::atomic::') or x['name'].rsplit('::', 1)[-1] not in _WRITERS or not x['args']:
                return False
            root, steps = access_path(x['args'][0])
            plain = [st for st in steps if not st.startswith(('@', '!', 'as ', '['))]
            return bool(plain) and plain[-1] == flag
        vals = {'running': None}
        # the initial value: the flag is built by Default (0) unless a constructor names another value
        news = set()
        for fn in F.fns.values():
            if 'complete_status' not in fn.get('file', ''):
                continue
            g = cx.graph(fn['key'], inline=False)
            for x in g.nodes:
                if x['kind'] == 'call' and x['name'].startswith('std::sync::atomic::') and x['name'].endswith('::new') and x['args']:
                    news.add(const_int(x['args'][0]))
        vals['running'] = 0 if not news else (list(news)[0] if len(news) == 1 else None)
        for im in cx.observer_impls():
            if roles.impl_tag(cx, im) != obs:
                continue
            for meth in ('error', 'complete'):
                fn = cx.method(im, meth)
                g = cx.graph(fn['key'])
                cs = set()
                for x in g.nodes:
                    if flag_store(x):
                        tail = x['name'].rsplit('::', 1)[-1]
                        vexpr = x['args'][2] if tail.startswith('compare_exchange') and len(x['args']) > 2 else (x['args'][1] if len(x['args']) > 1 else None)
                        cs.add(const_int(vexpr) if vexpr is not None and tail in ('store', 'swap', 'compare_exchange', 'compare_exchange_weak') else None)
                vals[meth] = list(cs)[0] if len(cs) == 1 else None
        n = 0
        for fn in sorted(F.fns.values(), key=lambda f: f['key']):
            im = F.impl_of_fn(fn)
            if im is None or roles.impl_tag(cx, im) != adt or fn.get('name') not in preds or fn.get('name') not in STATUS_MEANING:
                continue
            g = cx.graph(fn['key'], forward=True)
            rets = [x['rhs'] for x in g.nodes if x['kind'] == 'assign' and not x['ctx'] and x['lhs'][0] == 'local' and x['lhs'][1] == 0]
            if len(rets) != 1:
                continue   # not a single expression: undecided
            n += 1
            wrong = []
            for state, c in sorted(vals.items()):
                if c is None:
                    continue
                v = _eval_pred(rets[0], c)
                if v is not None and bool(v) != STATUS_MEANING[fn['name']][state]:
                    wrong.append('%s() answers %s when the flag holds %d (%s)' % (fn['name'], bool(v), c, {'running': 'source still running', 'complete': 'stored by complete()', 'error': 'stored by error()'}[state]))
            res.append(Finding(ID, 'R10', cx.label(fn), not wrong,
                               ('the status query misreads an outcome: ' + '; '.join(wrong) + (' — wait_for_end never returns for that outcome' if fn['name'] == 'is_closed' else '')) if wrong else
                               'agrees with the values the terminal methods store (running=%s complete=%s error=%s)' % (vals.get('running'), vals.get('complete'), vals.get('error')), fn['span']))
        if n < 3:
            res.append(Finding(ID, 'R10', 'floor:' + adt, n >= 1, 'only %d of the 3 status queries are single expressions over the flag (the others are undecided)' % n))
    return res


def r11(cx):
    """`collect` yields all items: every item is added to the collection and the collection is emitted, then complete, on every
    path of complete() — also for a source that emitted nothing (same rule as C03.S10 for CollectObserver)"""
    if cx.control:
        return []
    from . import c03
    out = [Finding(ID, 'R11', f.key, f.ok, f.msg, f.loc, f.witness) for f in c03.s10(cx) if 'collect::CollectObserver' in f.key]
    if not out:
        out.append(Finding(ID, 'R11', 'floor', False, 'CollectObserver not found'))
    return out


def r9(cx):
    """the consuming side of to_future()/to_stream() learns that the source is gone from the channel being disconnected: it must
    not keep a sender of its own channel alive, or `None` (all senders dropped) can never be observed and the stream / future
    never ends after an error or an abandoned source"""
    F = cx.facts
    res = []
    if cx.control:
        return res
    n = 0
    for tr in ('futures::Stream', 'futures::Future'):
        for im in F.impls_of(tr):
            tag = roles.impl_tag(cx, im)
            if not tag.startswith(('ops::stream::', 'ops::future::')):
                continue
            n += 1
            bad = [f for f, t in roles.adt_fields(cx, tag) if F.mentions(t, lambda x: x['k'] == 'adt' and x['p'].rsplit('::', 1)[-1] in ('UnboundedSender', 'Sender', 'SyncSender'))]
            res.append(Finding(ID, 'R9', tag, not bad,
                               'the receiving side keeps a sender of its own channel (field `%s`): the channel can never disconnect, so after an error (which sends no end marker) poll never sees the end' % bad[0]
                               if bad else 'holds only the receiving end of its channel', im['span']))
    if n < 2:
        res.append(Finding(ID, 'R9', 'floor', False, 'ObservableStream / ObservableFuture not found'))
    return res
