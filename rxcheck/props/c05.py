"""C05 — flattening: no re-entrant call under the state lock (DESIGN §3 C05)."""
from ..core import (Finding, lock_scopes, node_desc, SUBSCRIBE, FN_CALLS, recv_class)
from .. import roles

ID = 'C05'
LEVEL = 'other'
EXPLANATION = ('SCOPE rule F1 on the four merge_all observers and their queued subscribe tasks: no inner observable is subscribed, and no '
               'stored (queued) closure is called, while a guard of the shared observer_data cell may be held. An inner observable that emits '
               'synchronously at subscription re-enters InnerObserver::next, which re-acquires the same cell: RefCell panics, Mutex '
               'self-deadlocks. F3: each observer method takes its decision and acts on it within one acquisition of the shared state (no check-then-act split). F2: the queue of waiting inner subscriptions is first-in-first-out (necessary for concat order and for merge_all(n) serving waiters in arrival order). Decides the "without panicking or blocking" clause and this ordering precondition; exactly-once delivery, order, the concurrency '
               'bound and the completion condition are counter arithmetic over runtime values and are not decided. Inner/outer error '
               'envelopes are checked under C03.S2.')
ASSUMPTIONS = ['an inner observable may emit synchronously during actual_subscribe']

TAGS = ['ops::merge_all::InnerObserver', 'ops::merge_all::InnerObserverThreads', 'ops::merge_all::OutsideObserver', 'ops::merge_all::OutsideObserverThreads']
CONTROLS = ['F1|<verif_controls::LockedFlatten<O, Item> as Observer>::next', 'F2|src/verif_controls.rs field `stack`',
            'F3|<verif_controls::SplitDecision<O> as Observer>::next']


def check(cx):
    F = cx.facts
    res = []
    n_sites = 0
    seen = set()
    roots = []
    for im in cx.observer_impls():
        tag = roles.impl_tag(cx, im)
        if tag in TAGS or (cx.control and tag == 'verif_controls::LockedFlatten'):
            seen.add(tag)
            for meth in ('next', 'error', 'complete'):
                fn = cx.method(im, meth)
                roots.append(fn)
                # closures stored away by this method (queued tasks) are separate roots
                for ck in F.children.get(fn['key'], []):
                    roots.append(F.fns[ck])
    for fn in roots:
        g = cx.graph(fn['key'])
        label = cx.label(fn)
        held = lock_scopes(g)
        sites = []
        for n in g.nodes:
            if n['kind'] in ('call', 'enter') and n['name'] == SUBSCRIBE:
                sites.append(n)
            elif n['kind'] == 'call' and n['name'] in FN_CALLS and n['callee'] and n['callee'].get('a'):
                t = F.ty(F.strip_refs(n['callee']['a'][0]))
                if t['k'] in ('dyn',) or (t['k'] == 'adt' and t['p'] == 'std::boxed::Box'):
                    sites.append(n)
        bad = []
        for n in sites:
            n_sites += 1
            hs = list(held[n['id']])  # any library guard: nothing may be subscribed / run while one is held here
            if hs:
                bad.append((n, hs))
        if not sites:
            continue
        if bad:
            n, hs = bad[0]
            res.append(Finding(ID, 'F1', label, False,
                               'an inner observable is subscribed (or a queued subscribe task is run) while the guard of %s is held: a synchronously emitting inner re-enters '
                               'InnerObserver::next on the same cell (RefCell: panic, Mutex: self-deadlock)' % sorted({h[1] for h in hs}),
                               g.loc(n), [node_desc(g, n)]))
        else:
            res.append(Finding(ID, 'F1', label, True, '%d subscribe/queued-task site(s), none under the state guard' % len(sites), fn['span']))
    res += f3(cx, ID, 'F3')
    from ..core import fifo_findings
    ff = fifo_findings(cx, ID, 'F2', ('src/ops/merge_all.rs',))
    res += ff
    if not cx.control and len(ff) < 1:
        res.append(Finding(ID, 'F2', 'floor', False, 'queue of waiting inner subscriptions not found'))
    if not cx.control:
        for t in TAGS:
            if t not in seen:
                res.append(Finding(ID, 'F1', 'table:' + t, False, 'merge_all observer not found (fail closed)'))
        if n_sites < 6:
            res.append(Finding(ID, 'F1', 'floor', False, 'only %d subscribe/queued-task sites found in merge_all, expected >= 6' % n_sites))
    return res


def f3(cx, prop, rule):
    """check-then-act atomicity on the shared flattening state: within one observer method (or queued task) the
    state cell is acquired at most once per path. The decision 'a slot is free / all slots are taken / nothing is
    queued' and the action taken on it (count the slot, enqueue, hand the slot over, complete) must lie in one
    critical section, otherwise another thread's inner completion can fall between them (lost wake-up: a queued
    inner is never started, or the output never completes)."""
    from ..core import guard_of, explore, ret_states, witness, interesting_default
    F = cx.facts
    res = []
    n = 0
    for im in cx.observer_impls():
        tag = roles.impl_tag(cx, im)
        if tag not in TAGS and not (cx.control and tag == 'verif_controls::SplitDecision'):
            continue
        for meth in ('next', 'error', 'complete'):
            fn = cx.method(im, meth)
            g = cx.graph(fn['key'])
            label = cx.label(fn)
            n += 1

            # the shared state cell: the (only) field that is a MutRc|MutArc<Option<local struct or tuple>>
            state = {'self.' + f for f, t in roles.adt_fields(cx, tag) if roles.is_cell_of(F, F.ty(t), lambda o: roles.is_option_of(F, o, lambda x: x['k'] in ('adt', 'tuple') and not x.get('p', '').startswith('smallvec')))}

            def step(st, nd, lab):
                if st == 'BAD':
                    return None
                gd = guard_of(nd)
                if gd and not nd['ctx'] and gd[1] in state:
                    if st >= 1:
                        return 'BAD'
                    return st + 1
                return st
            reached, pred = explore(g, 0, step)
            bad = [k for k in reached if k[1] == 'BAD']
            res.append(Finding(prop, rule, label, not bad,
                               'shared state acquired at most once per path (decision and action in one critical section)' if not bad else
                               'the shared flattening state is acquired twice on one path: the decision taken under the first guard is acted upon under a second one, and an inner completion on another thread can fall in between (a queued inner is never started / the output never completes)',
                               fn['span'], witness(g, pred, bad[0], interesting_default) if bad else None))
    if not cx.control and n < 12:
        res.append(Finding(prop, rule, 'floor', False, 'expected 12 merge_all observer methods, found %d' % n))
    return res
