"""C05 — flattening: no re-entrant call under the state lock (DESIGN §3 C05)."""
from ..core import (Finding, lock_scopes, node_desc, SUBSCRIBE, FN_CALLS, recv_class)
from ..expr import access_path, strip
from .. import roles

ID = 'C05'
LEVEL = 'other'
EXPLANATION = ('SCOPE rule F1 on the four merge_all observers and their queued subscribe tasks: no inner observable is subscribed, and no '
               'stored (queued) closure is called, while a guard of the shared observer_data cell may be held. An inner observable that emits '
               'synchronously at subscription re-enters InnerObserver::next, which re-acquires the same cell: RefCell panics, Mutex '
               'self-deadlocks. F4: slot accounting — outer next subscribes only into a free slot (counting it) and otherwise queues exactly once; an inner completion hands its slot to exactly one waiting task or gives it back; a queued task subscribes once and leaves the counter alone (decision tables over running - limit, abstract interpretation). F3: each observer method takes its decision and acts on it within one acquisition of the shared state (no check-then-act split). F2: the queue of waiting inner subscriptions is first-in-first-out (necessary for concat order and for merge_all(n) serving waiters in arrival order). Decides the "without panicking or blocking" clause and this ordering precondition; exactly-once delivery, order, order beyond F2 and the completion condition are not decided. Inner/outer error '
               'envelopes are checked under C03.S2. F7 the shared state of the flattening stays in its cell while an item is delivered (items go through the borrowed slot: an observer taken out makes the stream look terminated to every other inner and to the outer); F6 the completion of the outer stream is never swallowed: on every path of complete() of the outer observer it is either recorded (flag) or delivered downstream, or the slot is already empty; F5 the builders wire the concurrency limit their names promise: concat_all/concat_map = merge_all with limit 1, flatten/flat_map = no limit, merge_all(n) = n, in the local and the thread-safe form (operator trees of the builders).')
TECHNIQUE = 'static analysis: lock-scope, slot-accounting and FIFO rules over MIR event graphs; operator-tree matching of the flattening builders (custom rustc_private driver)'
ASSUMPTIONS = ['an inner observable may emit synchronously during actual_subscribe']

TAGS = ['ops::merge_all::InnerObserver', 'ops::merge_all::InnerObserverThreads', 'ops::merge_all::OutsideObserver', 'ops::merge_all::OutsideObserverThreads']
CONTROLS = ['F1|<verif_controls::LockedFlatten<O, Item> as Observer>::next', 'F2|src/verif_controls.rs field `stack`',
            'F3|<verif_controls::SplitDecision<O> as Observer>::next']


def check(cx):
    _env_wrapped = True
    from . import c03
    return _check_own(cx) + f8(cx) + c03.envelopes(cx, ID)


def f8(cx):
    """'without panicking or blocking': the flattening operators register every inner subscription with their composite from INSIDE a
    notification of a source whose own handle is already in that composite (the outer's next(), a completing inner's complete()),
    and that handle's cell is occupied for the duration. MultiSubscription::append therefore only touches its list: it never asks a
    member it already holds whether it is closed (RefCell: BorrowMutError, Mutex / task handle: self-deadlock)."""
    from ..core import IS_CLOSED_NAMES
    F = cx.facts
    res = []
    if cx.control:
        return res
    n = 0
    for im in F.impls.values():
        if im.get('trait') or roles.impl_tag(cx, im) not in ('subscription::MultiSubscription', 'subscription::MultiSubscriptionThreads'):
            continue
        for f in im['fns']:
            fn = F.fns.get(f['key'])
            if fn is None or f['n'] != 'append':
                continue
            n += 1
            g = cx.graph(fn['key'])
            bad = [x for x in g.nodes if x['kind'] in ('call', 'enter') and x['name'] in IS_CLOSED_NAMES and x['args'] and
                   not (strip(x['args'][0])[0] == 'arg' and strip(x['args'][0])[1] == 1)]
            res.append(Finding(ID, 'F8', cx.label(fn), not bad,
                               'append() only touches the list' if not bad else
                               'append() asks members of the composite whether they are closed: it is called from inside a notification of a source whose handle is one of them (its cell is borrowed / locked for the duration) — flat_map/merge_all/concat_all panic (local) or dead-lock (threads) once that happens',
                               g.loc(bad[0]) if bad else fn['span'], [node_desc(g, x) for x in bad[:2]]))
    if n < 2:
        res.append(Finding(ID, 'F8', 'floor', False, 'MultiSubscription::append not found (%d)' % n))
    return res


def _check_own(cx):
    F = cx.facts
    res = []
    n_sites = 0
    seen = set()
    roots = []
    for im in cx.observer_impls():
        tag = roles.impl_tag(cx, im)
        if tag in TAGS or (cx.control and tag == 'verif_controls::LockedFlatten'):
            seen.add(tag)
            for meth in ('next', 'error', 'complete'):
                fn = cx.method(im, meth)
                roots.append(fn)
                # closures stored away by this method (queued tasks) are separate roots
                for ck in F.children.get(fn['key'], []):
                    roots.append(F.fns[ck])
    for fn in roots:
        g = cx.graph(fn['key'])
        label = cx.label(fn)
        held = lock_scopes(g)
        sites = []
        for n in g.nodes:
            if n['kind'] in ('call', 'enter') and n['name'] == SUBSCRIBE:
                sites.append(n)
            elif n['kind'] == 'call' and n['name'] in FN_CALLS and n['callee'] and n['callee'].get('a'):
                t = F.ty(F.strip_refs(n['callee']['a'][0]))
                if t['k'] in ('dyn',) or (t['k'] == 'adt' and t['p'] == 'std::boxed::Box'):
                    sites.append(n)
        bad = []
        for n in sites:
            n_sites += 1
            hs = list(held[n['id']])  # any library guard: nothing may be subscribed / run while one is held here
            if hs:
                bad.append((n, hs))
        if not sites:
            continue
        if bad:
            n, hs = bad[0]
            res.append(Finding(ID, 'F1', label, False,
                               'an inner observable is subscribed (or a queued subscribe task is run) while the guard of %s is held: a synchronously emitting inner re-enters '
                               'InnerObserver::next on the same cell (RefCell: panic, Mutex: self-deadlock)' % sorted({h[1] for h in hs}),
                               g.loc(n), [node_desc(g, n)]))
        else:
            res.append(Finding(ID, 'F1', label, True, '%d subscribe/queued-task site(s), none under the state guard' % len(sites), fn['span']))
    res += f3(cx, ID, 'F3')
    if not cx.control:
        res += f4(cx)
        res += f5(cx)
        res += f6(cx)
        from . import c01
        res += [Finding(ID, 'F7', f.key, f.ok, f.msg, f.loc, f.witness) for f in c01.p3(cx, items=True) if 'merge_all::' in f.key]
    from ..core import fifo_findings
    ff = fifo_findings(cx, ID, 'F2', ('src/ops/merge_all.rs',))
    res += ff
    if not cx.control and len(ff) < 1:
        res.append(Finding(ID, 'F2', 'floor', False, 'queue of waiting inner subscriptions not found'))
    if not cx.control:
        for t in TAGS:
            if t not in seen:
                res.append(Finding(ID, 'F1', 'table:' + t, False, 'merge_all observer not found (fail closed)'))
        if n_sites < 2:
            res.append(Finding(ID, 'F1', 'floor', False, 'only %d subscribe/queued-task sites found in merge_all, expected >= 2 (one per cell kind)' % n_sites))
    return res


def f3(cx, prop, rule):
    """check-then-act atomicity on the shared flattening state: within one observer method (or queued task) the
    state cell is acquired at most once per path. The decision 'a slot is free / all slots are taken / nothing is
    queued' and the action taken on it (count the slot, enqueue, hand the slot over, complete) must lie in one
    critical section, otherwise another thread's inner completion can fall between them (lost wake-up: a queued
    inner is never started, or the output never completes)."""
    from ..core import guard_of, explore, ret_states, witness, interesting_default
    F = cx.facts
    res = []
    n = 0
    for im in cx.observer_impls():
        tag = roles.impl_tag(cx, im)
        if tag not in TAGS and not (cx.control and tag == 'verif_controls::SplitDecision'):
            continue
        for meth in ('next', 'error', 'complete'):
            fn = cx.method(im, meth)
            g = cx.graph(fn['key'])
            label = cx.label(fn)
            n += 1

            # the shared state cell: the (only) field that is a MutRc|MutArc<Option<local struct or tuple>>
            state = {'self.' + f for f, t in roles.adt_fields(cx, tag) if roles.is_cell_of(F, F.ty(t), lambda o: roles.is_option_of(F, o, lambda x: x['k'] in ('adt', 'tuple') and not x.get('p', '').startswith('smallvec')))}

            def step(st, nd, lab):
                if st == 'BAD':
                    return None
                gd = guard_of(nd)
                if gd and not nd['ctx'] and gd[1] in state:
                    if st >= 1:
                        return 'BAD'
                    return st + 1
                return st
            reached, pred = explore(g, 0, step)
            bad = [k for k in reached if k[1] == 'BAD']
            res.append(Finding(prop, rule, label, not bad,
                               'shared state acquired at most once per path (decision and action in one critical section)' if not bad else
                               'the shared flattening state is acquired twice on one path: the decision taken under the first guard is acted upon under a second one, and an inner completion on another thread can fall in between (a queued inner is never started / the output never completes)',
                               fn['span'], witness(g, pred, bad[0], interesting_default) if bad else None))
    if not cx.control and n < 12:
        res.append(Finding(prop, rule, 'floor', False, 'expected 12 merge_all observer methods, found %d' % n))
    return res


def f4(cx):
    """slot accounting of merge_all(n): decision tables over d = running - limit (abstract interpretation, see tables.py).
    outer next: a free slot (d <= -1) => count it (+1) and subscribe now, enqueue nothing; no free slot (d >= 0) => enqueue exactly
    one task, count nothing, subscribe nothing. inner complete: either hand the slot to exactly one waiting task (counter
    untouched) or give the slot back (-1) and start nothing. A queued task subscribes exactly once and does not touch the counter."""
    from ..tables import summaries
    from ..core import witness, interesting_default, Incomplete
    F = cx.facts
    res = []
    data_adt = 'ops::merge_all::ObserverData'
    usizes = [f for f, t in roles.adt_fields(cx, data_adt) if F.tystr(t) == 'usize']
    written = set()
    for fn in F.fns.values():
        if fn['file'] != 'src/ops/merge_all.rs':
            continue
        g = cx.graph(fn['key'], inline=False)
        for x in g.nodes:
            if x['kind'] == 'assign':
                root, steps = access_path(x['lhs'])
                if steps and steps[-1] in usizes:
                    written.add(steps[-1])
    cnt = [f for f in usizes if f in written]
    bnd = [f for f in usizes if f not in written]
    if len(cnt) != 1 or len(bnd) != 1:
        raise Incomplete('cannot tell the running counter from the limit among %s' % usizes)

    def spec_outer_next(s):
        if s['bad']:
            return s['bad']
        if s['empty']:
            return None if (s['subs'] == 0 and s['pushes'] == 0 and s['k'] == 0) else 'acts although the state is gone'
        if s['subs'] > 0:
            if not (s['hi'] is not None and s['hi'] <= -1):
                return 'subscribes an inner observable although no slot is free (running >= limit)'
            if s['subs'] != 1 or s['k'] != 1 or s['pushes'] != 0:
                return 'an inner subscribed right away must take exactly one slot and must not also be queued'
            return None
        if not (s['lo'] is not None and s['lo'] >= 0):
            return 'queues (or drops) an inner observable although a slot is free'
        if s['pushes'] != 1 or s['k'] != 0:
            return 'an inner that finds no free slot must be queued exactly once without taking a slot'
        return None

    def spec_inner_complete(s):
        if s['bad']:
            return s['bad']
        if s['empty']:
            return None
        if s['pops'] > 1 or s['calls'] > 1:
            return 'one completion starts more than one waiting inner observable: more than `limit` run at a time'
        if s['calls'] == 1:
            return None if (s['pops'] == 1 and s['k'] == 0) else 'handing the slot to a waiting inner must leave the running counter untouched'
        if s['pops'] != 0:
            return 'a waiting task is taken from the queue but not started'
        return None if s['k'] == -1 else 'a completion with nobody waiting must give exactly one slot back'

    def spec_task(s):
        if s['k'] != 0:
            return 'a queued task changes the running counter itself (the slot was already accounted for when it was handed over)'
        return None if s['subs'] == 1 else 'a queued task must subscribe its inner observable exactly once'

    for im in cx.observer_impls():
        tag = roles.impl_tag(cx, im)
        if tag not in TAGS:
            continue
        todo = []
        if 'Outside' in tag:
            fn = cx.method(im, 'next')
            todo.append((fn, spec_outer_next, 'outer next'))
            for ck in F.children.get(fn['key'], []):
                todo.append((F.fns[ck], spec_task, 'queued task'))
        else:
            todo.append((cx.method(im, 'complete'), spec_inner_complete, 'inner complete'))
        for fn, spec, what in todo:
            g = cx.graph(fn['key'])
            state = {'self.' + f for f, t in roles.adt_fields(cx, tag)} | {'self'}
            sums, pred = summaries(g, counter=cnt[0], bound=bnd[0], slot_classes={c for c in state} | {'self.0'})
            bad = None
            for sm, key in sums:
                why = spec(sm)
                if why:
                    bad = (why, key)
                    break
            res.append(Finding(ID, 'F4', cx.label(fn), not bad,
                               ('slot accounting (%s): %s' % (what, bad[0])) if bad else 'slot accounting of %s agrees with merge_all(n) on %d path classes' % (what, len(sums)),
                               fn['span'], witness(g, pred, bad[1], interesting_default) if bad else None))
    return res


def f5(cx):
    """the concurrency limit each builder of the flattening family passes on (operator trees, see C03.S11)"""
    from . import c03
    OP, SELF, A, C, MAXC = c03.OP, c03.SELF, c03.A, c03.C, c03.MAXC
    table = {}
    for suffix in ('', '_threads'):
        table['observable::ObservableExt::merge_all' + suffix] = ('merge_all' + suffix, OP('merge_all', SELF, A(2)))
        table['observable::ObservableExt::concat_all' + suffix] = ('concat_all' + suffix, OP('merge_all', SELF, C(1)))
        table['observable::ObservableExt::flatten' + suffix] = ('flatten' + suffix, OP('merge_all', SELF, MAXC))
        table['observable::ObservableExt::flat_map' + suffix] = ('flat_map' + suffix, OP('merge_all', OP('map', SELF, A(2)), MAXC))
        table['observable::ObservableExt::concat_map' + suffix] = ('concat_map' + suffix, OP('merge_all', OP('map', SELF, A(2)), C(1)))
    return c03.check_builder_trees(cx, ID, 'F5', table, what='does not pass on the concurrency limit its name promises')


def f6(cx):
    """complete() of the outer observer: recorded or delivered on every path (provenance dataflow)"""
    from .. import prov as P
    res = []
    n = 0
    for im in cx.observer_impls():
        tag = roles.impl_tag(cx, im)
        if tag not in ('ops::merge_all::OutsideObserver', 'ops::merge_all::OutsideObserverThreads'):
            continue
        n += 1
        fn = cx.method(im, 'complete')
        sums, _ = P.summaries(cx.graph(fn['key']), item_arg=0)
        bad = None
        for sm, key in sums:
            if P.emits(sm, 'complete'):
                continue
            if any(t[0] == 'discr' and v == 0 for t, v in sm['conds']):
                continue        # the shared state is already gone
            if any(v == ('const', 'true') for k, v in sm['store'].items() if k[0] == 'S'):
                continue        # recorded for the last inner to act on
            bad = 'a path of complete() neither records nor delivers the completion of the outer stream although the shared state is still there: the merged stream never completes (conditions on that path: %s)' % \
                  ', '.join('%s=%s' % (P.show(t)[:50], v) for t, v in sm['conds'])[:200]
        res.append(Finding(ID, 'F6', cx.label(fn), not bad, bad or 'the outer completion is recorded or delivered on every path', fn['span']))
    if n < 2:
        res.append(Finding(ID, 'F6', 'floor', False, 'outer observers of merge_all not found'))
    return res
