"""C12 — BehaviorSubject hands every new subscriber the current value first (DESIGN §3 C12)."""
from ..core import (Finding, lang_check, lock_scopes, down_method, recv_class, node_desc, mentions, SUBSCRIBE, FN_CALLS, down_token)
from ..expr import access_path, strip, render
from .. import roles

ID = 'C12'
LEVEL = 'other'
EXPLANATION = ('Static rules on BehaviorSubject: B1 next() stores the new value into the shared cell before broadcasting it; B2 subscribe replays '
               'a clone of the cell content to the new observer and then joins the inner subject; B3 the value cell is the subject family\'s '
               'shared pointer type (MutRc/MutArc, whose Clone clones the pointer), so all clones see one value; B4/B5 store+broadcast and '
               'replay+join each lie in one critical section (required for the thread-safe form; reported as known findings today); next_by = '
               'peek, user f, next; B9 the inner subject hands every later item to every subscriber it accepted (same rules as C06.J1/J2/J6); B10 subscribing and emitting lock the two subscriber lists of the inner subject in one order (same rule as C06.J10: a late subscriber of the thread-safe form cannot block the producer); B8 peek() takes only the shared (read) guard of the value cell; B7 no method holds the exclusive (write) guard of the value cell while it broadcasts, calls the new observer or runs a user closure (peek()/next_by()/subscribe from inside a callback must work). Does not decide exactly-once delivery of later items (C06) nor values.')
ASSUMPTIONS = ['B4/B5 concern SubjectThreads instantiations with concurrent producers only']

CONTROLS = [
    'B1|<verif_controls::LateStoreBehavior as Observer>::next',
    'B2|<verif_controls::LateStoreBehavior as Observable>::actual_subscribe',
]
TAG = 'subject::behavior_subject::BehaviorSubject'


def _is_tag(cx, tag):
    return tag == TAG or (cx.control and tag == 'verif_controls::LateStoreBehavior')


_VAL = {'f': 'value'}


def _value_field(cx, adt_path):
    """the field holding the current value: the one whose type is a shared cell (the AssociatedRefPtr::Rc<Item> alias, or MutRc|MutArc)"""
    F = cx.facts
    return roles.field_where(cx, adt_path, lambda t, ti: (t['k'] == 'alias' and t['p'].endswith('AssociatedRefPtr::Rc')) or
                             (t['k'] == 'adt' and t['p'] in ('rc::MutRc', 'rc::MutArc')), 'current-value cell')


def _store_ev(n):
    if n['kind'] == 'assign':
        root, steps = access_path(n['lhs'])
        if '@' in steps and steps[0] == _VAL['f']:
            return ('store',)
    if n['kind'] == 'call' and n['name'] in ('std::mem::replace', 'std::option::Option::replace', 'std::cell::Cell::set') and n['args']:
        root, steps = access_path(n['args'][0])
        if '@' in steps and steps[0] == _VAL['f']:
            return ('store',)
    return None


def check(cx):
    from . import c03
    return _check(cx) + b9(cx) + c03.envelopes(cx, ID)


def b9(cx):
    """'then every later item exactly once': the inner subject moves every waiting subscriber into the live list and broadcasts to all
    of them (same rules as C06.J1/J2/J6 for Subject and SubjectThreads); B10 the two subscriber lists are locked in one order by subscribe and by emission (C06.J10)"""
    if cx.control:
        return []
    from . import c06
    out = []
    for f in c06.check(cx):
        if f.rule in ('J1', 'J2', 'J6') and ('subject::Subject<' in f.key or 'subject::SubjectThreads<' in f.key):
            out.append(Finding(ID, 'B9', f.rule + ':' + f.key, f.ok, f.msg, f.loc, f.witness))
        # B10: subscribing (which parks the newcomer in the waiting list) and emitting (which moves the waiting list into the live one)
        # take the two list cells in one order: a late subscriber of a thread-safe BehaviorSubject that arrives during an emission
        # would otherwise block the producer for ever, and nobody receives the later items (same rule as C06.J10 / C10.L3a)
        if f.rule == 'J10':
            out.append(Finding(ID, 'B10', f.key, f.ok, f.msg, f.loc, f.witness))
    return out


def _check(cx):
    F = cx.facts
    res = []
    seen = set()
    for im in sorted(F.impls.values(), key=lambda i: (i['file'], i['line'], i['self_s'])):
        tag = roles.impl_tag(cx, im)
        if not _is_tag(cx, tag):
            continue
        _VAL['f'] = _value_field(cx, tag)
        VCLS = 'self.' + _VAL['f']
        tr = im.get('trait')
        # B7: the guard of the value cell is never held while a notification is broadcast, a new observer is called or a user
        # closure runs: peek() / next_by() / subscribe from inside a callback (and a re-entrant f) must find the cell free
        if tag == TAG:
            for fref in im.get('fns', []):
                mfn = F.fns.get(fref['key'])
                if mfn is None:
                    continue
                mg = cx.graph(mfn['key'])
                held = lock_scopes(mg)
                badn = None
                for x in mg.nodes:
                    if x['kind'] not in ('call', 'enter'):
                        continue
                    out = (x['name'] in ('observer::Observer::next', 'observer::Observer::error', 'observer::Observer::complete') and not x.get('body') or
                           x['name'] == SUBSCRIBE or (x['name'] in FN_CALLS and x['kind'] == 'call') or
                           (x['name'] in ('observer::Observer::next', 'observer::Observer::error', 'observer::Observer::complete') and x['args'] and recv_class(x['args'][0]) != VCLS and x['kind'] == 'enter'))
                    if out and any(h[1] == VCLS and h[2] == 'W' for h in held[x['id']]):
                        badn = x
                        break
                res.append(Finding(ID, 'B7', roles.stable_label(cx, mfn), badn is None,
                                   'the value cell is free whenever a callback can run' if badn is None else
                                   'a notification / user closure runs while the exclusive guard of the value cell is held: peek(), next_by() or a subscribe from inside that callback panics (RefCell) or deadlocks (Mutex)',
                                   mg.loc(badn) if badn else mfn['span'], [node_desc(mg, badn)] if badn else None))
            if tr == 'behavior::Behavior':
                pfn = F.impl_fn(im, 'peek')
                if pfn is not None:
                    pg = cx.graph(pfn['key'])
                    from ..core import guard_of
                    wr = [x for x in pg.nodes if guard_of(x) and guard_of(x)[1] == VCLS and guard_of(x)[2] == 'W']
                    res.append(Finding(ID, 'B8', roles.stable_label(cx, pfn), not wr,
                                       'peek() only reads the value cell (shared guard)' if not wr else
                                       'peek() takes the exclusive guard of the value cell: a peek() from inside a callback that runs while the cell is being read (the replay to a new subscriber) panics (RefCell) instead of returning the current value',
                                       pg.loc(wr[0]) if wr else pfn['span']))
            if tr == 'behavior::Behavior' and any(f['n'] == 'next_by' for f in im.get('fns', [])):
                mfn = F.impl_fn(im, 'next_by')
                mg = cx.graph(mfn['key'])

                def ev4(n):
                    if n['kind'] in ('call', 'enter'):
                        if n['name'] == 'behavior::Behavior::peek' or (n['name'].startswith('rc::RcDeref') and n['args'] and recv_class(n['args'][0]) == VCLS):
                            return ('peek',)
                        if n['name'] in FN_CALLS:
                            return ('user',)
                        if n['name'] == 'observer::Observer::next':
                            return ('next',)
                    return None
                bad4 = lang_check(mg, 'peek+ user peek* next', ev4, exact=True, empty_ok=False)
                res.append(Finding(ID, 'B6', roles.stable_label(cx, mfn), not bad4, bad4[0] if bad4 else 'overridden next_by = read, f, next', mfn['span'], bad4[1] if bad4 else None))
        if tr == 'observer::Observer':
            seen.add('observer')
            fn = F.impl_fn(im, 'next')
            g = cx.graph(fn['key'])
            label = roles.stable_label(cx, fn)

            def ev(n):
                s = _store_ev(n)
                if s:
                    return s
                if n['kind'] in ('call', 'enter') and n['name'] == 'observer::Observer::next' and not n['ctx']:
                    return ('down',)
                return None
            bad = lang_check(g, 'store down', ev, exact=True, empty_ok=False)
            res.append(Finding(ID, 'B1', label, not bad, ('the value cell must be written before the broadcast (peek() inside a callback and late subscribers must see the new value): ' + bad[0]) if bad else
                               'value cell written, then broadcast', fn['span'], bad[1] if bad else None))
            # B11: what is broadcast is the incoming item itself (or its clone), not a re-read of the value cell: between the store
            # and a re-read another producer may have stored its own item, which is then delivered twice while this one is lost
            bc = [n for n in g.nodes if n['kind'] in ('call', 'enter') and n['name'] == 'observer::Observer::next' and not n['ctx']]
            stale = [n for n in bc if len(n['args']) < 2 or not mentions(n['args'][1], lambda e: e[0] == 'arg' and e[1] == 2)]
            res.append(Finding(ID, 'B11', label, bool(bc) and not stale,
                               'the broadcast item is the incoming item' if bc and not stale else
                               'next() broadcasts something else than the item it was given (a value read back from the shared cell): with two producers the cell may already hold the other producer\'s item at the re-read - that item is delivered twice and this one never',
                               g.loc(stale[0]) if stale else fn['span'], [node_desc(g, n) for n in stale]))
            if tag == TAG:
                held = lock_scopes(g)
                downs = [n for n in g.nodes if n['kind'] in ('call', 'enter') and n['name'] == 'observer::Observer::next' and not n['ctx']]
                atomic = bool(downs) and all(any(h[1] == VCLS for h in held[n['id']]) for n in downs)
                res.append(Finding(ID, 'B4', label, atomic,
                                   'store and broadcast in one critical section' if atomic else
                                   'store into the value cell and broadcast are two separate critical sections: with two producer threads the stored value can differ from the one delivered last '
                                   '(P1 store a, P2 store b, P2 broadcast b, P1 broadcast a => peek()==b, subscribers saw a last)', fn['span'], [node_desc(g, n) for n in downs]))
        elif tr == 'observable::Observable':
            seen.add('observable')
            fn = F.impl_fn(im, 'actual_subscribe')
            g = cx.graph(fn['key'])
            label = roles.stable_label(cx, fn)

            def ev2(n):
                t = down_token(n)
                if t:
                    return t
                if n['kind'] in ('call', 'enter') and n['name'] == SUBSCRIBE and not n['ctx']:
                    return ('sub',)
                return None
            bad = lang_check(g, 'next sub', ev2, exact=True, empty_ok=False)
            nexts = [n for n in g.nodes if down_method(n) == 'next']
            from_cell = bool(nexts) and all(len(n['args']) > 1 and mentions(n['args'][1], lambda e: e[0] == 'call' and e[1] == 'std::clone::Clone::clone' and '@' in access_path(e[2][0])[1] and _VAL['f'] in access_path(e[2][0])[1]) for n in nexts)
            ok = not bad and from_cell
            res.append(Finding(ID, 'B2', label, ok,
                               'replays a clone of the value cell, then joins the inner subject' if ok else
                               ('a new subscriber must first receive a clone of the current value and then join: ' + (bad[0] if bad else 'the replayed item is not a clone of the value cell')),
                               fn['span'], bad[1] if bad else [node_desc(g, n) for n in nexts]))
            if tag == TAG:
                held = lock_scopes(g)
                subs = [n for n in g.nodes if n['kind'] in ('call', 'enter') and n['name'] == SUBSCRIBE and not n['ctx']]
                atomic = bool(subs) and all(any(h[1] == VCLS for h in held[n['id']]) for n in subs)
                res.append(Finding(ID, 'B5', label, atomic,
                                   'replay and join in one critical section' if atomic else
                                   'replay of the current value and the join of the inner subject are not atomic w.r.t. a concurrent producer: an emission between them is lost for the new subscriber',
                                   fn['span'], [node_desc(g, n) for n in subs]))
    if cx.control:
        return res
    for part in ('observer', 'observable'):
        if part not in seen:
            res.append(Finding(ID, 'B1', 'floor:' + part, False, 'BehaviorSubject %s impl not found' % part))
    # B3: one cell for all clones
    adt = F.adts.get(TAG)
    ok = False
    why = 'BehaviorSubject not found'
    if adt:
        f = [x for v in adt['variants'] for x in v['fields'] if x['n'] == _value_field(cx, TAG)]
        t = F.ty(f[0]['t']) if f else None
        ok = bool(t) and t['k'] == 'alias' and t['p'].endswith('AssociatedRefPtr::Rc')
        why = 'value: %s' % (t['s'] if t else '?')
    res.append(Finding(ID, 'B3', TAG + '.value', ok, why + (' (the subject family\'s shared pointer)' if ok else ' — not the AssociatedRefPtr::Rc<Item> shared cell'), adt['span'] if adt else ''))
    impls = F.impls_of('rc::AssociatedRefPtr')
    for im in sorted(impls, key=lambda i: i['self_s']):
        rc = [a for a in im['assoc_tys'] if a['n'] == 'Rc']
        p = F.ty(rc[0]['t']).get('p') if rc else None
        ok = p in ('rc::MutRc', 'rc::MutArc')
        res.append(Finding(ID, 'B3', 'AssociatedRefPtr for ' + roles.impl_tag(cx, im), ok, 'Rc<T> = %s' % p, im['span']))
    if len(impls) < 5:
        res.append(Finding(ID, 'B3', 'floor', False, 'expected 5 AssociatedRefPtr impls, found %d' % len(impls)))
    for im in F.impls_of('std::clone::Clone'):
        tag = roles.impl_tag(cx, im)
        if tag in ('MutRc<_>', 'MutArc<_>'):
            fn = F.impl_fn(im, 'clone')
            g = cx.graph(fn['key'], inline=False)
            cl = [n for n in g.nodes if n['kind'] == 'call' and n['name'] == 'std::clone::Clone::clone']
            ok = len(cl) == 1 and F.tystr(cl[0]['callee']['a'][0]).startswith(('std::rc::Rc<', 'std::sync::Arc<'))
            res.append(Finding(ID, 'B3', cx.label(fn), ok, 'clones the pointer (%s)' % (F.tystr(cl[0]['callee']['a'][0]) if cl else '?'), fn['span']))
    derived = [im for im in F.impls_of('std::clone::Clone') if roles.impl_tag(cx, im) == TAG]
    res.append(Finding(ID, 'B3', 'Clone for BehaviorSubject', bool(derived) and derived[0]['derived'], 'derived field-wise Clone (clones subject handle and value pointer)', derived[0]['span'] if derived else ''))
    # next_by
    tr = F.traits.get('behavior::Behavior')
    k = [m['key'] for m in tr['methods'] if m['n'] == 'next_by'] if tr else []
    if k and k[0] in F.fns:
        fn = F.fns[k[0]]
        g = cx.graph(fn['key'])

        def ev3(n):
            if n['kind'] in ('call', 'enter'):
                if n['name'] == 'behavior::Behavior::peek':
                    return ('peek',)
                if n['name'] in FN_CALLS:
                    return ('user',)
                if n['name'] == 'observer::Observer::next':
                    return ('next',)
            return None
        bad = lang_check(g, 'peek user next', ev3, exact=True, empty_ok=False)
        res.append(Finding(ID, 'B6', 'behavior::Behavior::next_by', not bad, bad[0] if bad else 'next_by = peek, f, next', fn['span'], bad[1] if bad else None))
    else:
        res.append(Finding(ID, 'B6', 'behavior::Behavior::next_by', False, 'default method not found'))
    return res
