"""C06 — subjects: once, in order, to exactly the current subscribers (DESIGN §3 C06)."""
from ..core import (reachable, Finding, lang_check, lock_scopes, down_method, recv_class, node_desc, TAKE, const_bool, mentions)
from ..expr import access_path, strip, render
from .. import roles

ID = 'C06'
LEVEL = 'other'
EXPLANATION = ('Static rules on the five subject types (instances of the same macros): J1 the whole broadcast of one notification runs inside '
               'one live range of the `observers` guard; J2 every notification first moves the waiting subscribers from the side list into '
               'the live list (load) and subscribe only ever pushes into the side list; J3 terminals take() the live list, unsubscribe takes '
               'both lists, is_finished/is_closed answer "live list is None", subscribing to an unsubscribed subject yields an empty '
               'subscriber; J4 the terminal broadcast skips closed subscribers; J10 the two subscriber lists are locked in one order everywhere (same rule as C10.L3a); J9 is_empty()/len() are pure reads; J8 is_empty()/len() count the waiting chamber only while the live list is open (a finished subject is empty); J7 unsubscribe() closes the live list before the waiting chamber, the order load()/len()/is_empty() rely on (same rule as C10.L6); J6 the live list is not edited during a broadcast (every present subscriber is visited once); J5 the stored subscriber handle delivers under its slot guard and never re-fills its slot (unsubscribe-one is effective and final). Decides the mechanism behind "a subscriber added during an '
               'emission does not see the in-flight item"; does not decide exactly-once delivery over join/leave histories.')
ASSUMPTIONS = ['SmallVec keeps insertion order; RefCell/Mutex guards give exclusive access']

SUBJECTS = ['subject::Subject', 'subject::SubjectThreads', 'subject::MutRefItemSubject', 'subject::MutRefErrSubject', 'subject::MutRefItemErrSubject']

CONTROLS = [
    'J1|<verif_controls::BadSubject<Item> as Observer>::next',
    'J2|<verif_controls::BadSubject<Item> as Observer>::next',
    'J2|<verif_controls::BadSubject<Item> as Observable>::actual_subscribe',
    'J3|<verif_controls::BadSubject<Item> as Observer>::complete',
    'J5|<verif_controls::Reopenable<O>>::reopen',
]


def _subjects(cx):
    return SUBJECTS + (['verif_controls::BadSubject'] if cx.control else [])


def _lists(cx, adt_path):
    """(live list field, waiting list field) of a subject type: the two MutRc|MutArc<Option<SmallVec<[Box<dyn Publisher>]>>> cells;
    the live one is the one load() appends to"""
    from ..core import Incomplete
    F = cx.facts
    cells = roles.field_where(cx, adt_path, lambda t, ti: roles.is_cell_of(F, t, lambda o: roles.is_option_of(F, o)) and
                              F.mentions(ti, lambda x: x['k'] == 'dyn' and any(tr['p'].endswith('Publisher') for tr in x['tr'])), 'subscriber list', unique=False)
    if len(cells) != 2:
        raise Incomplete('expected two subscriber-list cells in %s, found %s' % (adt_path, cells))
    live = None
    # the live list is the one a broadcast walks: the receiver of the Publisher::p_next calls in Observer::next
    for im in F.impls.values():
        if roles.impl_tag(cx, im) == adt_path and im.get('trait') == 'observer::Observer':
            fn = F.impl_fn(im, 'next')
            if fn is not None:
                g = cx.graph(fn['key'])
                for n in g.nodes:
                    if down_method(n) == 'next' and n['args']:
                        c = recv_class(n['args'][0])
                        if c.startswith('self.') and c[5:] in cells:
                            live = c[5:]
    for im in F.impls.values():
        if live is not None:
            break
        if roles.impl_tag(cx, im) == adt_path and not im.get('trait'):
            for f in im['fns']:
                fn = F.fns.get(f['key'])
                if fn is None:
                    continue
                g = cx.graph(fn['key'], inline=False)
                for n in g.nodes:
                    if n['kind'] == 'call' and n['name'].rsplit('::', 1)[-1] in ('append', 'extend') and n['args']:
                        c = recv_class(n['args'][0])
                        if c.startswith('self.') and c[5:] in cells:
                            live = c[5:]
    if live is None:
        raise Incomplete('no function of %s moves the waiting subscribers into a list (cannot tell the live list from the waiting list)' % adt_path)
    wait = [c for c in cells if c != live][0]
    return live, wait


def check(cx):
    from . import c03
    from . import c01
    slot = [Finding(ID, 'J11', f.key, f.ok, f.msg, f.loc, f.witness) for f in c01.p3(cx, items=True) if ('subscriber::' in f.key or 'subject::' in f.key)] if not cx.control else []
    return _check(cx) + j7(cx) + j8(cx) + j9(cx) + j10(cx) + slot + c03.envelopes(cx, ID)


def j10(cx):
    """the two subscriber lists are always locked in the same order (live list, then chamber): same analysis as C10.L3a, restricted to
    the subject cells — an inverted order dead-locks a thread-safe subject between e.g. retain() and an emission"""
    if cx.control:
        return []
    from . import c10
    out = []
    for f in c10.l3a(cx):
        if f.rule == 'L3a' and ('#observers' in f.key or '#chamber' in f.key):
            out.append(Finding(ID, 'J10', f.key, f.ok, f.msg, f.loc, f.witness))
    return out


def j9(cx):
    """is_empty()/len() are pure reads (shared guards only, no effect)"""
    if cx.control:
        return []
    from . import c03
    F = cx.facts
    subs = _subjects(cx)
    fns = []
    for im in F.impls.values():
        if roles.impl_tag(cx, im) in subs and (im.get('trait') or '').rsplit('::', 1)[-1] == 'SubjectSize':
            fns += [F.fns[f['key']] for f in im.get('fns', []) if f['key'] in F.fns and f['n'] in ('is_empty', 'len')]
    return c03.query_findings(cx, fns, ID, 'J9', 'the size query')


def j8(cx):
    """a subject that delivered its terminal (live list closed) is empty: is_empty()/len() look at the waiting chamber only on paths
    on which the live list is still open — error()/complete() close the live list only, so subscribers that arrive afterwards sit in
    the chamber for ever and must not be counted"""
    from ..core import explore, witness, interesting_default, guard_of, sw_value, recv_class as rc_
    F = cx.facts
    res = []
    if cx.control:
        return res
    subs = _subjects(cx)
    n = 0
    for im in sorted(F.impls.values(), key=lambda i: (i['file'], i['line'], i['self_s'])):
        tag = roles.impl_tag(cx, im)
        if tag not in subs or (im.get('trait') or '').rsplit('::', 1)[-1] != 'SubjectSize':
            continue
        LIVE, WAIT = _lists(cx, tag)
        for fref in im.get('fns', []):
            fn = F.fns.get(fref['key'])
            if fn is None or fn.get('name') not in ('is_empty', 'len'):
                continue
            n += 1
            g = cx.graph(fn['key'])

            def step(st, x, lab):
                state, depth = st
                if state == 'BAD':
                    return None
                d, v = sw_value(lab)
                if d is not None:
                    dd = strip(d)
                    if dd[0] == 'discr' and rc_(dd[1]) == 'self.' + LIVE and v == 1 and state != 'in':
                        state = 'some'
                if x['kind'] == 'call' and x['args'] and rc_(x['args'][0]) == 'self.' + LIVE and \
                        x['name'].rsplit('::', 1)[-1] in ('map_or', 'map', 'map_or_else', 'and_then', 'is_some_and', 'inspect') and state == 'out':
                    state = 'armed'
                elif x['kind'] == 'enter' and x.get('name') == '<closure>' and state == 'armed':
                    state, depth = 'in', len(x['ctx']) + 1
                elif x['kind'] == 'exit' and x.get('name') == '<closure>' and state == 'in' and len(x['ctx']) + 1 == depth:
                    state, depth = 'out', 0
                gd = guard_of(x)
                if gd and gd[1] == 'self.' + WAIT and state not in ('in', 'some'):
                    return ('BAD', 0)
                return (state, depth)
            reached, pred = explore(g, ('out', 0), step)
            bad = [k for k in reached if k[1][0] == 'BAD']
            res.append(Finding(ID, 'J8', cx.label(fn), not bad,
                               'the waiting chamber is looked at although the live list may already be closed: after complete()/error() late subscribers stay in the chamber, so a finished subject reports itself non-empty'
                               if bad else 'the chamber is only counted while the live list is open', fn['span'], witness(g, pred, bad[0], interesting_default) if bad else None))
    if n < 10:
        res.append(Finding(ID, 'J8', 'floor', False, 'expected is_empty/len of the 5 subject types, found %d' % n))
    return res


def j7(cx):
    """after unsubscribe() every call on any clone still returns (finished / empty): the two lists are emptied in the order their
    readers rely on (same rule as C10.L6) — otherwise a concurrent or re-entrant next/len/is_empty panics on the half-closed subject"""
    if cx.control:
        return []
    from . import c10
    return [Finding(ID, 'J7', f.key, f.ok, f.msg, f.loc, f.witness) for f in c10.l6(cx)]


def _loaders(cx, tag, LIVE, WAIT):
    """names of the inherent helpers that move the waiting chamber into the live list (`load` today): identified by what they do —
    a push/append/extend into the live list in a function that also touches the chamber — not by their name"""
    F = cx.facts
    out = set()
    for im in F.impls.values():
        if roles.impl_tag(cx, im) != tag or im.get('trait'):
            continue
        for f in im['fns']:
            fn = F.fns.get(f['key'])
            if fn is None:
                continue
            g = cx.graph(fn['key'], inline=False)
            moves = [n for n in g.nodes if n['kind'] == 'call' and n['name'].rsplit('::', 1)[-1] in ('push', 'insert', 'append', 'extend') and n['args']
                     and recv_class(n['args'][0]) == 'self.' + LIVE]
            touch = [n for n in g.nodes if n['kind'] == 'call' and n['args'] and recv_class(n['args'][0]) == 'self.' + WAIT]
            if moves and touch:
                out.add(f['n'])
    return out


def loader_edits(cx, prop, rule):
    """the helper that admits waiting subscribers (load) only ever ADDS to the live list: it removes nobody. Reported for the
    properties whose observers report finished while they still have live consumers (C20: a group_by whose stream of groups ended
    early is 'finished' to the subject, yet its groups must keep receiving items and the terminal)."""
    F = cx.facts
    res = []
    if cx.control:
        return res
    for tag in SUBJECTS:
        try:
            LIVE, WAIT = _lists(cx, tag)
        except Exception:
            continue
        loaders = _loaders(cx, tag, LIVE, WAIT)
        for im in F.impls.values():
            if roles.impl_tag(cx, im) != tag or im.get('trait'):
                continue
            for f in im['fns']:
                fn = F.fns.get(f['key'])
                if fn is None or f['n'] not in loaders:
                    continue
                g = cx.graph(fn['key'])
                edits = [n for n in g.nodes if n['kind'] == 'call' and n['args'] and recv_class(n['args'][0]) == 'self.' + LIVE and
                         n['name'].rsplit('::', 1)[-1] in ('remove', 'swap_remove', 'retain', 'retain_mut', 'truncate', 'pop', 'clear', 'dedup', 'split_off', 'drain', 'take')]
                res.append(Finding(prop, rule, cx.label(fn), not edits,
                                   'admitting waiting subscribers removes nobody from the live list' if not edits else
                                   'admitting waiting subscribers also removes live ones (%s): an observer that reports finished while it still feeds live consumers (group_by after take(n) on its stream of groups) is dropped, its groups lose every later item and are never terminated' % edits[0]['name'].rsplit('::', 1)[-1],
                                   g.loc(edits[0]) if edits else fn['span'], [node_desc(g, x) for x in edits[:2]]))
    return res


def _check(cx):
    F = cx.facts
    res = []
    subs = _subjects(cx)
    seen = set()
    loaders_of = {}
    for im in sorted(F.impls.values(), key=lambda i: (i['file'], i['line'], i['self_s'])):
        tag = roles.impl_tag(cx, im)
        if tag not in subs:
            continue
        LIVE, WAIT = _lists(cx, tag)
        if tag not in loaders_of:
            loaders_of[tag] = _loaders(cx, tag, LIVE, WAIT)
        LOAD = tuple('::' + x for x in sorted(loaders_of[tag])) or ('::load',)
        tr = im.get('trait')
        if tr == 'observer::Observer':
            seen.add(tag)
            for meth in ('next', 'error', 'complete'):
                fn = F.impl_fn(im, meth)
                label = cx.label(fn)
                g = cx.graph(fn['key'])
                pubs = [n for n in g.nodes if down_method(n) == meth]
                # J1: one critical section
                held = lock_scopes(g)
                guards = set()
                ok = bool(pubs)
                for n in pubs:
                    hs = [h for h in held[n['id']] if h[1] == 'self.' + LIVE]
                    if not hs:
                        ok = False
                    guards |= {h[0] for h in hs}
                if len(guards) != 1:
                    ok = False
                # the guard must not be re-acquired between two deliveries of the same notification
                acq = [n['id'] for n in g.nodes if n['kind'] == 'call' and strip(n.get('value') or ('x',)) in {strip(x) for x in guards}]
                for n in pubs:
                    if any(a in reachable(g, [m for m, k, l in g.succs(n['id'])]) for a in acq):
                        ok = False
                res.append(Finding(ID, 'J1', label, ok,
                                   'whole broadcast inside one live range of the observers guard' if ok else
                                   'the broadcast is not inside a single critical section of `observers` (%d guard ranges, %d calls): concurrent emitters could interleave per subscriber' % (len(guards), len(pubs)),
                                   fn['span'], [node_desc(g, n) for n in pubs[:3]]))
                # J6: a broadcast visits every live subscriber: the live list is not edited while a notification is delivered
                edits = [n for n in g.nodes if n['kind'] == 'call' and n['args'] and recv_class(n['args'][0]) == 'self.' + LIVE and not any(c[2].endswith(LOAD) for c in n['ctx'])
                         and n['name'].rsplit('::', 1)[-1] in ('remove', 'swap_remove', 'retain', 'retain_mut', 'truncate', 'pop', 'insert', 'clear', 'dedup', 'split_off')]
                res.append(Finding(ID, 'J6', label, not edits,
                                   'the live list is only iterated / taken while notifying' if not edits else
                                   'the live list is edited (%s) during the broadcast: the subscriber that moves into the edited position is skipped (or visited twice) for this notification' % edits[0]['name'].rsplit('::', 1)[-1],
                                   g.loc(edits[0]) if edits else fn['span']))
                # J2: load first

                def ev(n):
                    if n['kind'] == 'enter' and n['name'].endswith(LOAD):
                        return ('load',)
                    if down_method(n) in ('next', 'error', 'complete'):
                        return ('pub',)
                    return None
                bad = lang_check(g, 'load pub*', ev, exact=True, empty_ok=False)
                res.append(Finding(ID, 'J2', label, not bad,
                                   ('waiting subscribers must be moved into the live list before the broadcast: ' + bad[0]) if bad else 'load() precedes the broadcast',
                                   fn['span'], bad[1] if bad else None))
                if meth in ('error', 'complete'):
                    badt = [n for n in pubs if '!take' not in access_path(n['args'][0])[1]]
                    okf = bool(pubs) and not badt
                    res.append(Finding(ID, 'J3', label, okf,
                                       'terminal is delivered from the take()n live list' if okf else
                                       'terminal broadcast does not take() the live list: later notifications would still be delivered', fn['span'],
                                       [node_desc(g, n) for n in badt]))
                    filt = [n for n in g.nodes if n['kind'] == 'call' and n['name'] == 'subscriber::Publisher::p_is_closed' and 'std::iter::Iterator::filter' in g.vias(n)]
                    if not filt:
                        # loop form: every delivery is reached only through the not-closed branch of a p_is_closed() test
                        tests = [n for n in g.nodes if n['kind'] == 'call' and n['name'] == 'subscriber::Publisher::p_is_closed']
                        tv = {strip(n['value']) for n in tests}
                        from ..core import explore, sw_value, mentions

                        def stepj(st, nd, lab):
                            d, v = sw_value(lab)
                            if d is not None and v in (0, 1) and mentions(d, lambda e: strip(e) in tv):
                                neg = mentions(d, lambda e: e[0] == 'un' and e[1] == 'Not')
                                st = 'open' if ((v == 0) != neg) else 'closed'
                            if nd in tests:
                                return 'asked'
                            if nd in pubs and st != 'open':
                                return 'BAD'
                            return st
                        rj, pj = explore(g, 'start', stepj)
                        if tests and not any(k[1] == 'BAD' for k in rj):
                            filt = tests
                    res.append(Finding(ID, 'J4', label, bool(filt), 'closed subscribers are filtered out of the terminal broadcast' if filt else
                                       'the terminal broadcast does not visit every subscriber while skipping exactly the closed ones (it must filter on p_is_closed, not stop at or ignore closed entries)', fn['span']))
            fn = F.impl_fn(im, 'is_finished')
            res.append(_is_none_answer(cx, fn, LIVE))
        elif tr == 'subscription::Subscription':
            fn = F.impl_fn(im, 'unsubscribe')
            g = cx.graph(fn['key'])
            label = cx.label(fn)
            for cell in (LIVE, WAIT):
                def ev(n, cell=cell):
                    if n['kind'] == 'call' and n['name'] in TAKE and n['args'] and recv_class(n['args'][0]) == 'self.' + cell:
                        return ('take',)
                    return None
                bad = lang_check(g, 'take', ev, exact=True, empty_ok=False)
                res.append(Finding(ID, 'J3', label + '|' + cell, not bad, ('unsubscribe must take the %s list: %s' % (cell, bad[0])) if bad else 'takes ' + cell, fn['span'], bad[1] if bad else None))
            res.append(_is_none_answer(cx, F.impl_fn(im, 'is_closed'), LIVE))
        elif tr == 'observable::Observable':
            fn = F.impl_fn(im, 'actual_subscribe')
            g = cx.graph(fn['key'])
            label = cx.label(fn)

            def ev(n):
                if n['kind'] == 'call' and n['name'].rsplit('::', 1)[-1] in ('push', 'insert', 'append', 'extend', 'push_back') and n['args']:
                    return ('push_chamber' if recv_class(n['args'][0]) == 'self.' + WAIT else 'push_' + recv_class(n['args'][0]).split('.')[-1],)
                if n['kind'] in ('call', 'enter') and n['name'].endswith('::new') and 'Subscriber' in n['name'] and n['args']:
                    a = strip(n['args'][0])
                    if a[0] == 'agg' and a[2].endswith('Option::None'):
                        return ('new_empty',)
                    return ('new_full',)
                return None
            bad = lang_check(g, '(new_full push_chamber) | new_empty', ev, exact=True, empty_ok=False)
            res.append(Finding(ID, 'J2', label, not bad,
                               ('a new subscriber must wait in the side list (chamber) — or be empty when the subject is unsubscribed: ' + bad[0]) if bad else
                               'subscribe pushes into the chamber only; unsubscribed subject hands out an empty subscriber', fn['span'], bad[1] if bad else None))
        elif tr is None:
            # WHO: only load() moves chamber -> observers
            for f in im['fns']:
                fn = F.fns.get(f['key'])
                if fn is None:
                    continue
                g = cx.graph(fn['key'], inline=False)
                moves = [n for n in g.nodes if n['kind'] == 'call' and n['name'].rsplit('::', 1)[-1] in ('push', 'insert', 'append', 'extend') and n['args']
                         and recv_class(n['args'][0]) == 'self.' + LIVE]
                if f['n'] in loaders_of[tag] or (not loaders_of[tag] and f['n'] == 'load'):
                    held = lock_scopes(g)
                    acq = [n for n in g.nodes if n['kind'] == 'call' and n['name'] in ('rc::RcDeref::rc_deref', 'rc::RcDerefMut::rc_deref_mut') and n['args'] and recv_class(n['args'][0]) == 'self.' + WAIT]
                    atomic = bool(acq) and all(any(h[1] == 'self.' + LIVE for h in held[n['id']]) for n in acq)
                    # the waiting subscribers flow, wholesale, to exactly one place: the append/extend into the live list
                    from ..expr import is_transparent, walk
                    srcs = set()
                    for m_ in moves:
                        for a_ in m_['args'][1:]:
                            for e_ in walk(a_):
                                if e_[0] == 'call' and not is_transparent(e_[1]) and e_[1].rsplit('::', 1)[-1] in ('drain', 'rc_deref_mut', 'rc_deref', 'take', 'split_off'):
                                    srcs.add(e_)
                    consumers = [n for n in g.nodes if n['kind'] == 'call' and not is_transparent(n['name']) and n['name'].rsplit('::', 1)[-1] not in ('drop', 'len', 'is_empty', 'unwrap', 'expect', 'as_mut', 'as_ref', 'deref', 'deref_mut', 'as_mut_slice', 'borrow_mut', 'unwrap_unchecked')
                                 and any(any(strip(e_) in {strip(s_) for s_ in srcs} for e_ in walk(a_)) for a_ in n['args']) and n['value'] not in srcs]
                    # the move must carry every waiting subscriber, in order: adaptors that drop or reorder elements are consumers too
                    lossy = [n for n in g.nodes if n['kind'] == 'call' and n['name'].startswith('std::iter::Iterator::') and
                             n['name'].rsplit('::', 1)[-1] in ('filter', 'filter_map', 'take_while', 'skip_while', 'skip', 'take', 'step_by', 'rev', 'map_while') and
                             n['args'] and recv_class(n['args'][0]) == 'self.' + WAIT]
                    consumers = consumers + lossy
                    linear = len(consumers) <= len(moves)
                    ok = bool(moves) and atomic and linear
                    if bool(moves) and atomic and not linear:
                        res.append(Finding(ID, 'J2', cx.label(fn) + '|linear', False,
                                           'the waiting subscribers are consumed at %d places besides the move into the live list (e.g. %s): a subscriber pulled out there and not stored is lost' % (
                                               len(consumers) - len(moves), consumers[0]['name']), g.loc(consumers[0])))
                    res.append(Finding(ID, 'J2', cx.label(fn), ok,
                                       'load() moves the chamber into the live list under the observers guard' if ok else
                                       ('load() no longer moves the waiting subscribers' if not moves else
                                        'load() touches the chamber without holding the observers guard: between taking the waiting subscribers and appending them they are in neither list, so a concurrent emission misses them (or a terminal drops them)'),
                                       fn['span']))
                elif moves:
                    res.append(Finding(ID, 'J2', cx.label(fn), False, 'writes into the live list outside load()', fn['span'], [node_desc(g, moves[0])]))
    res += j5(cx)
    if not cx.control:
        for t in SUBJECTS:
            if t not in seen:
                res.append(Finding(ID, 'J1', 'table:' + t, False, 'subject type not found (fail closed)'))
    return res


def _is_none_answer(cx, fn, live='observers'):
    g = cx.graph(fn['key'])
    label = cx.label(fn)
    isn = [n for n in g.nodes if n['kind'] == 'call' and n['name'] == 'std::option::Option::is_none' and n['args'] and recv_class(n['args'][0]) == 'self.' + live]
    consts = [n for n in g.nodes if n['kind'] == 'assign' and not n['ctx'] and n['lhs'][0] == 'local' and n['lhs'][1] == 0 and const_bool(n['rhs']) is not None]
    ok = len(isn) == 1 and not consts
    return Finding('C06', 'J3', label, ok, 'answers observers.is_none()' if ok else 'does not answer from the live list being None', fn['span'])


def j5(cx):
    """unsubscribe-one takes effect at once and for good: the subscriber handle a subject stores delivers while holding
    its slot guard (so an unsubscribe on another thread cannot slip in between) and never re-fills its slot"""
    from . import c02, c17
    res = []
    for f in c02.u6(cx, tags=('subscriber::Subscriber', 'subscriber::SubscriberThreads'), prop=ID, rule='J5'):
        if cx.control and 'EarlyReleaseSlot' in f.key:
            continue
        res.append(f)
    for f in c17.k3(cx):
        if f.key.startswith(('<subscriber::Subscriber', '<verif_controls::Reopenable')):
            res.append(Finding(ID, 'J5', f.key, f.ok, f.msg if f.ok else 'the subscriber handle re-fills its slot: an unsubscribe that emptied it meanwhile is undone and the unsubscribed subscriber keeps receiving', f.loc, f.witness))
    return res
