"""C13 — cold pipelines are lazy and every subscription is independent (DESIGN §3 C13)."""
from ..core import (Finding, lang_check, down_method, node_desc, SUBSCRIBE, SCHEDULE, FN_CALLS, recv_class)
from ..expr import strip, render
from .. import roles

ID = 'C13'
LEVEL = 'other'
EXPLANATION = ('Static rules: Z1 every pipeline builder (each provided ObservableExt method, each public constructor in observable::*, each '
               '*Op::new) performs no work — no subscribe, no downstream call, no scheduling, no user-closure call, no timer, no future poll, no into_iter()/Iterator call on a user-supplied argument '
               '(tabled: to_future/to_stream/subscribe* subscribe by contract; the _at forms read the clock); Z2 the deferred factories of '
               'defer/of_fn/start/create are called exactly once on every path of actual_subscribe and are bound FnOnce; Z3 no operator or cold '
               'source value holds shared state (no Rc/Arc/MutRc/MutArc/RefCell/Mutex/Cell field outside its type parameters) and every '
               'per-subscription cell is created inside actual_subscribe or an observer constructor (who-may-create check), so clones '
               'subscribed any number of times share nothing. Z7 no ObservableExt builder clones its own source (a derived operator that zips two branches of self.clone() runs the source twice per subscription); Z6 every operator subscribes each of its sources exactly once on every path of actual_subscribe (directly, or by handing it to the one task it schedules): one subscription of the pipeline is one run of every source; Z5 a hand-written Clone of a pipeline type copies every field from the original (a clone that resets part of the configuration subscribes to a different pipeline). Does not decide "same output each time" (value-level; follows from Z3 only '
               'for deterministic user closures).')
TECHNIQUE = 'static analysis: who-may-call / who-may-create rules over MIR event graphs, type-structure rules on operator types, operator-tree check of hand-written Clone impls (custom rustc_private driver)'
ASSUMPTIONS = ['derive(Clone) of a handle-free struct is a deep copy; user closures are deterministic']

# builders that work by contract
Z1_EXEMPT = {
    'observable::ObservableExt::to_future': 'conversion: subscribes the source by contract',
    'observable::ObservableExt::to_stream': 'conversion: subscribes the source by contract',
    'observable::ObservableExt::collect_into': None,
}
CLOCK_OK = ('observable::ObservableExt::delay_at', 'observable::ObservableExt::delay_at_threads', 'observable::ObservableExt::delay_subscription_at',
            'observable::timer::timer_at', 'observable::interval::interval_at', 'observable::timer::get_duration_from_instant')
# hot types: sharing state between subscriptions is their purpose
HOT = {
    'subject::Subject': 'hot by definition', 'subject::SubjectThreads': 'hot', 'subject::MutRefItemSubject': 'hot', 'subject::MutRefErrSubject': 'hot',
    'subject::MutRefItemErrSubject': 'hot', 'subject::behavior_subject::BehaviorSubject': 'hot',
    'ops::ref_count::ShareOp': 'share(): one connection for all subscribers', 'ops::ref_count::ShareOpThreads': 'share_threads()',
    'observable::connectable_observable::ConnectableObservable': 'publish(): holds the hot subject',
    'ops::complete_status::StatusOp': 'Arc<CompleteStatus> is handed to the caller by contract',
    'ops::group_by::KeyObservable': 'a group is a view on the group subject',
}
SHARED_TYPES = ('std::rc::Rc', 'std::sync::Arc', 'rc::MutRc', 'rc::MutArc', 'std::cell::RefCell', 'std::sync::Mutex', 'std::cell::Cell', 'std::sync::RwLock',
                'std::rc::Weak', 'std::sync::Weak', 'std::sync::OnceLock', 'std::cell::OnceCell', 'once_cell::sync::OnceCell', 'once_cell::unsync::OnceCell')
DEFERRED = {'observable::defer::ObservableDeref': 'defer', 'observable::of::CallableObservable': 'of_fn/start', 'observable::from_fn::ObservableFn': 'create'}
# functions that may create a shared cell although they are not actual_subscribe
CELL_CREATORS = {
    'Subscriber::new', 'SubscriberThreads::new', 'ShareObserver::new', 'ShareObserverThreads::new',
    'Default::default', 'TaskHandle::value_handle', 'remote_handle', 'BehaviorSubject::new', 'ShareOp::new', 'ShareOpThreads::new',
    'MutRc::own', 'MutArc::own', 'From::from', 'complete_status',
}

# trait methods that start or advance a user-supplied source when called on a generic argument
START_CALLS = ('std::iter::IntoIterator::into_iter', 'std::future::IntoFuture::into_future', 'futures::StreamExt::next', 'futures::TryStreamExt::try_next',
               'futures::FutureExt::shared', 'futures::FutureExt::now_or_never')

CONTROLS = ['Z6|<verif_controls::LazySourceOp<S> as Observable>::actual_subscribe', 'Z5|<verif_controls::ResettingOp as Clone>::clone', 'Z1|verif_controls::eager_builder', 'Z1|verif_controls::eager_iter_builder', 'Z3|verif_controls::CountingOp']


def check(cx):
    return z1(cx) + z2(cx) + z3(cx) + z5(cx) + z6(cx) + z7(cx)


def z7(cx):
    """a derived operator uses its source once: no ObservableExt builder clones `self` (e.g. to feed two branches that are zipped
    together again) — with Z6 every operator subscribes each source it holds once, so a pipeline that contains its source twice runs
    it twice per subscription (a defer/create closure, a side-effecting iterator) and combines values of different runs"""
    F = cx.facts
    res = []
    if cx.control:
        return res
    n = 0
    for fn in sorted(F.fns.values(), key=lambda f: f['key']):
        if not fn['path'].startswith('observable::ObservableExt::') or fn['kind'] in ('closure', 'coroutine'):
            continue
        n += 1
        g = cx.graph(fn['key'], inline=False)
        bad = [x for x in g.nodes if x['kind'] == 'call' and x['name'] == 'std::clone::Clone::clone' and x['args'] and strip(x['args'][0])[0] == 'arg' and strip(x['args'][0])[1] == 1]
        if bad:
            res.append(Finding(ID, 'Z7', fn['path'], False,
                               'the builder clones its source: the pipeline it returns contains the source twice, so one subscription runs the source twice (and combines values of two different runs)',
                               g.loc(bad[0]), [node_desc(g, bad[0])]))
    res.append(Finding(ID, 'Z7', 'builders inspected', n >= 90, '%d ObservableExt builders inspected, none clones its source' % n if n >= 90 else 'only %d ObservableExt builders found, expected >= 90' % n))
    return res


def _work(n):
    if n['kind'] not in ('call', 'enter'):
        return None
    if n['name'] == SUBSCRIBE:
        return 'subscribes'
    if n['name'] == SCHEDULE:
        return 'schedules a task'
    if down_method(n) in ('next', 'error', 'complete'):
        return 'calls an observer'
    if n['name'] in FN_CALLS and n['kind'] == 'call':
        return 'calls a user closure'
    if n['name'].endswith('new_timer'):
        return 'starts a timer'
    if n['name'] in ('futures::Future::poll', 'futures::Stream::poll_next'):
        return 'polls a future'
    if n['name'] in ('std::time::Instant::now', 'std::time::Instant::elapsed'):
        return 'reads the clock'
    if n['kind'] == 'call' and (n['name'] in START_CALLS or n['name'].startswith('std::iter::Iterator::')) and n.get('callee') and not n['callee'].get('res'):
        return 'starts / advances a user-supplied source (%s on a generic argument)' % '::'.join(n['name'].rsplit('::', 2)[-2:])
    return None


def z1(cx):
    F = cx.facts
    res = []
    roots = []
    tr = F.traits.get('observable::ObservableExt')
    if tr:
        for m in tr['methods']:
            if m['default'] and m['key'] in F.fns:
                roots.append(F.fns[m['key']])
    for fn in F.fns.values():
        if fn['kind'] == 'fn' and fn.get('pub') and fn['key'].startswith(F.crate + '::observable::') and 'fake_timer' not in fn['key']:
            roots.append(fn)
        elif fn['kind'] == 'assoc_fn' and fn.get('name') == 'new' and fn.get('impl'):
            im = F.impls[fn['impl']]
            tag = roles.impl_tag(cx, im)
            if not im.get('trait') and (tag.endswith('Op') or tag.endswith('OpThreads') or tag.endswith('OP') or tag.endswith('OpThread')):
                roots.append(fn)
        elif cx.control and fn['key'].endswith(('verif_controls::eager_builder', 'verif_controls::eager_iter_builder')):
            roots.append(fn)
    n = 0
    for fn in sorted(roots, key=lambda f: f['key']):
        label = fn['path'] if not fn.get('impl') else cx.label(fn)
        if fn['path'] in Z1_EXEMPT:
            continue
        n += 1
        g = cx.graph(fn['key'])
        bad = []
        for x in g.nodes:
            w = _work(x)
            if w == 'reads the clock' and fn['path'] in CLOCK_OK:
                continue
            if w:
                bad.append((x, w))
        if bad:
            x, w = bad[0]
            res.append(Finding(ID, 'Z1', label, False, 'building the pipeline already %s' % w, g.loc(x), [node_desc(g, x)]))
        else:
            res.append(Finding(ID, 'Z1', label, True, 'pure builder', fn['span']))
    if not cx.control and n < 90:
        res.append(Finding(ID, 'Z1', 'floor', False, 'only %d builders found, expected >= 90' % n))
    return res


def z2(cx):
    F = cx.facts
    res = []
    if cx.control:
        return res
    seen = set()
    for im in F.impls_of('observable::Observable'):
        tag = roles.impl_tag(cx, im)
        if tag not in DEFERRED:
            continue
        seen.add(tag)
        fn = F.impl_fn(im, 'actual_subscribe')
        g = cx.graph(fn['key'])

        def ev(x):
            if x['kind'] == 'call' and x['name'] in FN_CALLS and x['args'] and recv_class(x['args'][0]).startswith('self'):
                return ('factory',)
            return None
        bad = lang_check(g, 'factory', ev, exact=True, empty_ok=False)
        preds = [p for p in im['preds'] if p['k'] == 'trait' and p['tr'] in ('std::ops::FnOnce', 'std::ops::FnMut', 'std::ops::Fn')]
        once = bool(preds) and all(p['tr'] == 'std::ops::FnOnce' for p in preds)
        ok = not bad and once
        res.append(Finding(ID, 'Z2', cx.label(fn), ok,
                           '%s: the factory is called exactly once per subscription (FnOnce)' % DEFERRED[tag] if ok else
                           ('the deferred factory must run exactly once per subscription: ' + (bad[0] if bad else 'its bound is not FnOnce')), fn['span'], bad[1] if bad else []))
    for t in DEFERRED:
        if t not in seen:
            res.append(Finding(ID, 'Z2', 'table:' + t, False, 'deferred source not found (fail closed)'))
    return res


def z3(cx):
    F = cx.facts
    res = []
    n = 0
    seen_types = set()
    for im in sorted(F.impls_of('observable::Observable'), key=lambda i: (i['file'], i['line'], i['self_s'])):
        t = F.ty(F.strip_refs(im['self']))
        if t['k'] != 'adt' or t['p'] in seen_types:
            continue
        seen_types.add(t['p'])
        adt = F.adts.get(t['p'])
        if adt is None:
            continue
        tag = t['p']
        if tag in HOT or tag.startswith('ops::box_it::'):
            continue
        n += 1
        bad = None
        for v in adt['variants']:
            for f in v['fields']:
                if F.mentions(f['t'], lambda x: x['k'] == 'adt' and (x['p'] in SHARED_TYPES or x['p'].rsplit('::', 1)[-1] in ('Shared', 'WeakShared'))):
                    bad = (f['n'], F.tystr(f['t']))
        if bad:
            res.append(Finding(ID, 'Z3', tag, False, 'operator value carries shared state in field `%s: %s`: clones of the pipeline subscribed twice would share it' % bad, adt['span']))
        else:
            res.append(Finding(ID, 'Z3', tag, True, 'no shared-state field', adt['span']))
    if not cx.control and n < 60:
        res.append(Finding(ID, 'Z3', 'floor', False, 'only %d operator/source types inspected, expected >= 60' % n))
    if cx.control:
        return res
    # who may create a shared cell
    m = 0
    for fn in sorted(F.fns.values(), key=lambda f: f['key']):
        if fn['kind'] in ('closure', 'coroutine') and not fn.get('root'):
            continue
        owns = []
        for b in fn['blocks']:
            t = b['t']
            if t['k'] == 'call' and t['f']['o'] == 'const' and 'fn' in t['f']:
                nm = t['f']['fn']['p']
                import re as _re
                nm0 = _re.sub(r'::<[^>]*>', '', nm)      # (whatever the type parameter of the cell is called)
                if nm0.startswith(('rc::MutRc::own', 'rc::MutArc::own')) or (nm.endswith('From::from') and t['f']['fn'].get('a') and roles.type_tag(F, t['f']['fn']['a'][0]).startswith(('MutRc<', 'MutArc<'))):
                    owns.append(t)
        if not owns:
            continue
        m += len(owns)
        root = F.fns.get(fn.get('root')) if fn.get('root') else fn
        name = root.get('name')
        im = F.impl_of_fn(root)
        short = ('%s::%s' % (roles.impl_tag(cx, im).split('::')[-1], name)) if im and not im.get('trait') else (im and im.get('trait', '').split('::')[-1] + '::' + name) if im else name
        ok = name == 'actual_subscribe' or short in CELL_CREATORS or name in CELL_CREATORS or (im and roles.impl_tag(cx, im).split('::')[-1].split('<')[0] + '::' + name in CELL_CREATORS)
        if not ok and im and not im.get('trait') and not root.get('has_self', False):
            # an associated constructor (by any name) of a type that is an observer, or of the state struct an observer cell wraps
            t_ = roles.impl_tag(cx, im)
            obs_ = {roles.impl_tag(cx, o) for o in cx.observer_impls()}
            inputs_ = [F.tystr(i) for i in root.get('inputs', [])]
            if (t_ in obs_ or any(t_.split('::')[-1] in o for o in obs_)) and not any(i in ('Self', '&Self', '&mut Self') for i in inputs_):
                ok = True
        if not ok:
            res.append(Finding(ID, 'Z3', 'cell created in ' + cx.label(root), False, 'a shared cell is created outside actual_subscribe / an observer constructor: state could outlive or span subscriptions', root['span']))
    res.append(Finding(ID, 'Z3', 'cell creation sites', m >= 40, '%d $rc::own sites, all inside actual_subscribe or tabled constructors' % m))
    return res


def z5(cx):
    """hand-written Clone impls are field-wise copies (operator trees by provenance dataflow, see C03.S11)"""
    from .. import prov as P
    from . import c03
    F = cx.facts
    res = []
    n = 0
    for im in sorted(F.impls_of('std::clone::Clone'), key=lambda i: (i['file'], i['line'], i['self_s'])):
        if im.get('derived'):
            continue
        tag = roles.impl_tag(cx, im)
        if cx.control != ('verif_controls' in tag):
            continue
        fn = F.impl_fn(im, 'clone')
        if fn is None or tag not in F.adts:
            continue
        n += 1
        g = cx.graph(fn['key'], defaults=True)
        # forking a pipeline does no work: clone() runs no user function kept in the value being cloned (a `start`/`defer` closure run
        # at clone time runs once for the whole family of forks, with nothing subscribed, instead of once per subscription)
        work = [x for x in g.nodes if x['kind'] == 'call' and x['name'] in FN_CALLS]
        if work:
            res.append(Finding(ID, 'Z5', '<%s as Clone>::clone' % tag, False,
                               'clone() calls a user function (%s): forking the pipeline runs the work that belongs to a subscription, once for all forks' % render(work[0]['value'])[:80],
                               g.loc(work[0]), [node_desc(g, work[0])]))
            continue
        from ..core import Incomplete
        try:
            sums, _ = P.summaries(g, item_arg=0, maxd=40)
        except Incomplete as e:
            res.append(Finding(ID, 'Z5', '<%s as Clone>::clone' % tag, True, 'undecided (%s): not a plain struct literal; no user function is called' % e, fn['span']))
            continue
        ftys = dict(roles.adt_fields(cx, tag))
        bad = None
        for sm, key in sums:
            v = sm['store'].get(('L', 0), ('unk',))
            if v[0] != 'adt' or len(v) < 4 or not v[3]:
                continue
            for op, fname in zip(v[2], v[3]):
                if fname in ftys and c03._is_marker(F, ftys[fname]):
                    continue
                if not c03._dec11(P, op) or op[0] == 'call' and not op[1].endswith('Default::default'):
                    continue
                if op != ('old', (fname,)):
                    bad = 'the clone does not copy field `%s` from the original (it gets %s): subscribing the clone runs a different pipeline than subscribing the original' % (fname, P.show(op))
        res.append(Finding(ID, 'Z5', '<%s as Clone>::clone' % tag, not bad, bad or 'field-wise copy', fn['span']))
    if not cx.control and n < 10:
        res.append(Finding(ID, 'Z5', 'floor', False, 'expected >= 10 hand-written Clone impls, found %d' % n))
    return res


def z6(cx):
    """exactly once per subscription: every source field of an operator is subscribed once on every path of actual_subscribe"""
    from ..core import explore, ret_states, witness, interesting_default, mentions
    F = cx.facts
    res = []
    n = 0
    for im in sorted(F.impls_of('observable::Observable'), key=lambda i: (i['file'], i['line'], i['self_s'])):
        tag = roles.impl_tag(cx, im)
        if cx.control != ('verif_controls' in tag):
            continue
        fn = F.impl_fn(im, 'actual_subscribe')
        if fn is None or tag not in F.adts or tag in HOT:
            continue
        bounds = {}
        for p in im['preds']:
            if p['k'] == 'trait':
                bounds.setdefault(F.tystr(p['self']), set()).add(p['tr'])
        adt = F.adts[tag]
        st = F.ty(F.strip_refs(im['self']))
        amap = dict(zip(adt['generics'], [F.tystr(a) for a in st.get('a', [])]))
        srcs = [f for f, t in roles.adt_fields(cx, tag) if F.ty(t)['k'] == 'param' and
                'observable::Observable' in bounds.get(amap.get(F.ty(t)['n'], F.ty(t)['n']), set())]
        if not srcs:
            continue
        n += 1
        g = cx.graph(fn['key'])

        def step(st_, x, lab):
            cnt = dict(st_)
            if x['kind'] in ('call', 'enter') and x['name'] == SUBSCRIBE and x['args'] and not x['ctx']:
                c = recv_class(x['args'][0])
                for s_ in srcs:
                    if c == 'self.' + s_:
                        cnt[s_] = min(cnt.get(s_, 0) + 1, 3)
            if x['kind'] in ('call', 'enter') and x['name'] == SCHEDULE:
                for s_ in srcs:
                    if any(mentions(a, lambda e, s_=s_: e[0] == 'field' and e[2] == s_) for a in x['args']):
                        cnt[s_] = max(cnt.get(s_, 0), 1)
            return tuple(sorted(cnt.items()))
        reached, pred = explore(g, (), step)
        bad = None
        for key in ret_states(g, reached):
            d = dict(key[1])
            for s_ in srcs:
                if d.get(s_, 0) != 1:
                    bad = (s_, d.get(s_, 0), key)
        if bad:
            res.append(Finding(ID, 'Z6', cx.label(fn), False,
                               'source `%s` is subscribed %s on a path of actual_subscribe: one subscription of the pipeline must run every source exactly once (its start-up work, of_fn/defer closures, futures)' %
                               (bad[0], 'not at all' if bad[1] == 0 else '%d times' % bad[1]), fn['span'], witness(g, pred, bad[2], interesting_default)))
        else:
            res.append(Finding(ID, 'Z6', cx.label(fn), True, 'each of %s subscribed exactly once on every path' % srcs, fn['span']))
    if not cx.control and n < 50:
        res.append(Finding(ID, 'Z6', 'floor', False, 'only %d operators with source fields found, expected >= 50' % n))
    return res
