"""C04 — multi-input combinators (DESIGN §3 C04)."""
from ..core import (Finding, lang_check, explore, witness, ret_states, down_method, sw_value, interesting_default, node_desc,
                    mentions, recv_class, const_bool, SUBSCRIBE, TAKE, down_token)
from ..expr import strip, render, access_path, walk
from .. import roles

ID = 'C04'
LEVEL = 'other'
EXPLANATION = ('Static rules on the two-input operators: M0 both inputs are wired to observers built from one shared cell; M1 an error on '
               'either input reaches the shared downstream through take() (so exactly once, and later events of the other input find the '
               'slot empty); M2 merge/combine_latest/zip complete downstream only on the second completion (first completion only sets the '
               'flag); M3 take_until completes the main slot on the notifier\'s first item and ignores the notifier\'s own terminal, '
               'skip_until opens the gate on a notifier item only; M4 sample and buffer move the gathered data out before emitting it '
               '(no duplication on the next tick); M6 the source side of sample never emits (values are released by notifier events only); M5 zip\'s pending queues are first-in-first-out (necessary for pairing the i-th items); M7 latest-value flow, by provenance dataflow: combine_latest stores the incoming item first and combines it with the other side\'s stored value; with_latest_from pairs the incoming item with the stored secondary value and its secondary observer only stores and its completion leaves the stored value in place; sample stores on the source side and releases+empties on a tick; merge forwards the incoming item unchanged; M9 the shared downstream slot of merge/zip/combine_latest stays occupied while an item is delivered (items go through a borrowed slot, same rule as C01.P3): a notification of the other input that arrives meanwhile waits for the lock instead of finding the slot empty and being lost; M8 when the closing notifier of buffer() or the sampler of sample() completes, what was gathered since the last tick is released before the completion (skipped only when nothing is gathered). Does not decide pairing, latest-value selection or per-interleaving outputs.')
TECHNIQUE = 'static analysis: rule automata and path-sensitive provenance dataflow over MIR event graphs (custom rustc_private driver)'
ASSUMPTIONS = ['the interleaving of the two inputs is arbitrary; only per-event handlers are analysed']

SHARED = ['MutRc<ops::merge::MergeObserver>', 'MutArc<ops::merge::MergeObserver>',
          'MutRc<ops::zip::ZipObserver>', 'MutArc<ops::zip::ZipObserver>',
          'MutRc<ops::combine_latest::CombineLatestObserver>', 'MutArc<ops::combine_latest::CombineLatestObserver>']
HANDLES = ['MutRc<Option<_>>', 'MutArc<Option<_>>']
M4_SITES = ['ops::sample::SampleObserver::next', 'ops::sample::SampleObserver::complete', 'ops::buffer::BufferObserver::emit']

CONTROLS = [
    'M0|<verif_controls::TwoCells<A, B> as Observable>::actual_subscribe',
    'M1|<rc::MutRc<verif_controls::PeekShared<O>> as Observer>::error',
    'M2|<rc::MutRc<verif_controls::PeekShared<O>> as Observer>::complete',
    'M4|<verif_controls::CloneTick<O, V> as Observer>::next',
    'M5|src/verif_controls.rs field `stack`',
    'M7|<rc::MutRc<verif_controls::StaleCombine<O, A, B, F>> as Observer>::next',
]


def check(cx):
    _env_wrapped = True
    from . import c03
    return _check_own(cx) + c03.envelopes(cx, ID)


def _check_own(cx):
    return m0(cx) + m1(cx) + m2(cx) + m3(cx) + m4(cx) + m5(cx) + m6(cx) + m7(cx) + m8(cx) + m9(cx)


def m0(cx):
    F = cx.facts
    res = []
    n = 0
    for im in sorted(F.impls_of('observable::Observable'), key=lambda i: (i['file'], i['line'], i['self_s'])):
        fn = F.impl_fn(im, 'actual_subscribe')
        if fn is None:
            continue
        g = cx.graph(fn['key'], forward=True)      # (a constructor by any name is the struct literal it returns)
        subs = [x for x in g.nodes if x['kind'] in ('call', 'enter') and x['name'] == SUBSCRIBE and not x['ctx']]
        recvs = {recv_class(x['args'][0]) for x in subs}
        if len(subs) < 2 or len(recvs) < 2 or not all(r.startswith('self.') for r in recvs):
            continue
        n += 1
        label = cx.label(fn)
        cells = []
        for x in subs:
            cs = {e for e in walk(x['args'][1]) if e[0] == 'call' and (e[1].startswith(('rc::MutRc::own', 'rc::MutArc::own')) or e[1].endswith('::new'))}
            cells.append(cs)
        common = set.intersection(*cells) if cells else set()
        if common:
            res.append(Finding(ID, 'M0', label, True, 'all %d inputs feed observers built from one shared cell (%s)' % (len(subs), render(sorted(common, key=repr)[0])[:60]), fn['span']))
        else:
            res.append(Finding(ID, 'M0', label, False, 'the inputs are wired to observers that do not share one state cell: terminals and items of the two inputs cannot be coordinated', fn['span'],
                               [node_desc(g, x) for x in subs]))
    if not cx.control and n < roles.FLOORS['C04.M0.ops']:
        res.append(Finding(ID, 'M0', 'floor', False, 'only %d multi-input operators found, expected >= %d' % (n, roles.FLOORS['C04.M0.ops'])))
    return res


def _shared_impls(cx):
    for im in cx.observer_impls():
        tag = roles.impl_tag(cx, im)
        if tag in SHARED or tag in HANDLES or (cx.control and 'verif_controls::PeekShared' in tag):
            yield im, tag


def m1(cx):
    res = []
    n = 0
    for im, tag in _shared_impls(cx):
        fn = cx.method(im, 'error')
        g = cx.graph(fn['key'], forward=True)
        label = cx.label(fn)
        errs = [x for x in g.nodes if down_method(x) == 'error']
        n += 1
        bad = [x for x in errs if '!take' not in access_path(x['args'][0])[1]]
        must = lang_check(g, 'error', down_token, exact=True, empty_ok=True)
        if bad or must or not errs:
            msg = 'error is sent on an observer left in the shared slot: the other input can still deliver after the error' if bad else (must[0] if must else 'no downstream error')
            res.append(Finding(ID, 'M1', label, False, msg, fn['span'], [node_desc(g, x) for x in bad] or (must[1] if must else [])))
        else:
            res.append(Finding(ID, 'M1', label, True, 'error reaches the downstream through take() of the shared slot', fn['span']))
    if not cx.control and n < 8:
        res.append(Finding(ID, 'M1', 'floor', False, 'expected 8 shared observer impls, found %d' % n))
    return res


def m2(cx):
    res = []
    n = 0
    for im, tag in _shared_impls(cx):
        if tag in HANDLES:
            continue
        fn = cx.method(im, 'complete')
        g = cx.graph(fn['key'], forward=True)
        label = cx.label(fn)
        n += 1
        flags = set()
        for x in g.nodes:
            if x['kind'] == 'assign' and const_bool(x['rhs']) is True:
                root, steps = access_path(x['lhs'])
                if steps and '@' in steps:
                    flags.add(steps[-1])

        def flag_of(e):
            root, steps = access_path(e)
            return steps[-1] if steps and steps[-1] in flags and '@' in steps else None

        def step(st, nd, lab):
            phase, wrote, sent, empty = st
            d, v = sw_value(lab)
            if d is not None:
                f = flag_of(d)
                if f and phase is None and v in (0, 1):
                    phase = v
                dd = strip(d)
                if dd[0] == 'discr' and v == 0 and '!take' in access_path(dd[1])[1]:
                    empty = True
            if nd['kind'] == 'assign' and const_bool(nd['rhs']) is True and flag_of(nd['lhs']):
                wrote = True
            m = down_method(nd)
            if m in ('complete', 'error', 'next'):
                if m != 'complete' or '!take' not in access_path(nd['args'][0])[1]:
                    return ('BAD', wrote, sent, empty)
                sent = True
            return (phase, wrote, sent, empty)
        from ..core import explore_r
        reached, pred = explore_r(g, (None, False, False, False), step)
        bad = None
        for nid, st in ret_states(g, reached):
            if getattr(g, 'opt_frames', None):
                st = st[0]
            phase, wrote, sent, empty = st
            if phase == 'BAD':
                bad = (nid, st, 'sends something other than complete on the taken slot')
            elif phase is None:
                bad = (nid, st, 'a path completes without consulting the first-completion flag')
            elif phase == 0 and (sent or not wrote):
                bad = (nid, st, 'first completion must only record itself (flag := true) and deliver nothing')
            elif phase == 1 and not (sent or empty):
                bad = (nid, st, 'second completion does not complete the downstream')
        if not flags:
            res.append(Finding(ID, 'M2', label, False, 'no first-completion flag is written in complete()', fn['span']))
        elif bad:
            res.append(Finding(ID, 'M2', label, False, 'two-phase completion broken: ' + bad[2], fn['span'], []))
        else:
            res.append(Finding(ID, 'M2', label, True, 'first completion sets %s, second completes through take()' % sorted(flags), fn['span']))
    if not cx.control and n < 6:
        res.append(Finding(ID, 'M2', 'floor', False, 'expected 6 shared two-input observers, found %d' % n))
    return res


def _open_ev(nd):
    if nd['kind'] == 'call' and nd['name'].rsplit('::', 1)[-1] in ('set', 'store') and len(nd['args']) > 1 and const_bool(nd['args'][1]) is False:
        return ('open',)
    return None


def m3(cx):
    res = []
    if cx.control:
        return res
    n = 0
    for im in cx.observer_impls():
        tag = roles.impl_tag(cx, im)
        if tag == 'ops::take_until::TakeUntilNotifierObserver':
            fn = cx.method(im, 'next')
            g = cx.graph(fn['key'])
            bad = lang_check(g, 'complete', down_token, exact=True, empty_ok=True)
            n += 1
            res.append(Finding(ID, 'M3', cx.label(fn), not bad, bad[0] if bad else "notifier item completes the main slot", fn['span'], bad[1] if bad else None))
        if tag == 'ops::skip_until::SkipUntilNotifierObserver':
            for meth, spec, why in (('next', 'open', 'a notifier item must open the gate'),
                                    ('error', '', 'a notifier error must not open the gate'),
                                    ('complete', '', 'a notifier that completes without an item must not open the gate (documented: "until a second Observable emits an item")')):
                fn = cx.method(im, meth)
                g = cx.graph(fn['key'])
                bad = lang_check(g, spec, _open_ev, exact=True, empty_ok=False)
                n += 1
                res.append(Finding(ID, 'M3', cx.label(fn), not bad, (why + ': ' + bad[0]) if bad else "gate handling '%s'" % (spec or 'untouched'), fn['span'], bad[1] if bad else None))
    if n < 7:
        res.append(Finding(ID, 'M3', 'floor', False, 'expected 7 notifier method instances, found %d' % n))
    return res


def m4(cx):
    F = cx.facts
    res = []
    sites = []
    for fn in F.fns.values():
        im = F.impl_of_fn(fn)
        if im is None or fn['kind'] != 'assoc_fn':
            continue
        k = '%s::%s' % (roles.impl_tag(cx, im), fn.get('name'))
        if k in M4_SITES or (cx.control and k == 'verif_controls::CloneTick::next'):
            sites.append((k, fn))
        elif not cx.control and not im.get('trait') and roles.impl_tag(cx, im) == 'ops::buffer::BufferObserver' and k not in M4_SITES:
            # the private release helper of the buffer (`emit` today), by what it does: an inherent method that delivers downstream
            g0 = cx.graph(fn['key'], inline=False)
            if any(down_method(x) == 'next' for x in g0.nodes):
                sites.append((k, fn))
    for k, fn in sorted(sites, key=lambda x: (x[0], x[1]['key'])):
        g = cx.graph(fn['key'])
        label = cx.label(fn)
        nexts = [x for x in g.nodes if down_method(x) == 'next']
        bad = []
        for x in nexts:
            v = x['args'][1] if len(x['args']) > 1 else ('unknown', '')
            moved = mentions(v, lambda e: e[0] == 'call' and e[1] in TAKE)
            cloned = mentions(v, lambda e: e[0] == 'call' and e[1] == 'std::clone::Clone::clone')
            if not moved or cloned:
                bad.append(x)
        if bad or not nexts:
            res.append(Finding(ID, 'M4', label, False, 'gathered data is emitted without being moved out of its cell: it would be emitted again at the next tick', fn['span'], [node_desc(g, x) for x in bad]))
        else:
            res.append(Finding(ID, 'M4', label, True, 'emits what take() moved out of the cell', fn['span']))
    if not cx.control and len(sites) < len(M4_SITES):
        res.append(Finding(ID, 'M4', 'floor', False, 'expected %d release sites, found %d' % (len(M4_SITES), len(sites))))
    return res


def m5(cx):
    """zip pairs the i-th items: its two pending queues are first-in-first-out"""
    from ..core import fifo_findings
    res = fifo_findings(cx, ID, 'M5', ('src/ops/zip.rs',))
    if not cx.control and len(res) < 2:
        res.append(Finding(ID, 'M5', 'floor', False, 'expected the two zip queues, found %d' % len(res)))
    return res


def m6(cx):
    """sample releases the gathered value on notifier events only: the source-side observer parks items and forwards terminals, it never emits"""
    res = []
    if cx.control:
        return res
    n = 0
    for im in cx.observer_impls():
        if roles.impl_tag(cx, im) != 'ops::sample::SourceObserver':
            continue
        for meth, spec in (('next', ''), ('complete', 'complete'), ('error', 'error')):
            fn = cx.method(im, meth)
            g = cx.graph(fn['key'])
            n += 1
            bad = lang_check(g, spec, down_token, exact=True, empty_ok=True)
            res.append(Finding(ID, 'M6', cx.label(fn), not bad,
                               ('the source side of sample must not release items (only a notifier tick selects a value): ' + bad[0]) if bad else "source side delivers '%s' only" % (spec or 'nothing'),
                               fn['span'], bad[1] if bad else None))
    if n < 3:
        res.append(Finding(ID, 'M6', 'floor', False, 'sample source observer not found'))
    return res


def m7(cx):
    """which values are combined (provenance dataflow, see prov.py)"""
    from .. import prov as P
    F = cx.facts
    res = []
    seen = set()
    item = ('item', ())
    is_item = lambda v: v[0] == 'item'

    def rows(tag, im):
        if 'combine_latest::CombineLatestObserver' in tag or (cx.control and 'StaleCombine' in tag):
            fn = cx.method(im, 'next')
            sums, _ = P.summaries(cx.graph(fn['key']))
            bad = None
            for sm, key in sums:
                stored = [(k[1:], v) for k, v in sm['store'].items() if k[0] == 'S' and v[0] == 'some' and is_item(v[1])]
                if len(stored) != 1:
                    if all(P.decided(v) for k, v in sm['store'].items() if k[0] == 'S'):
                        bad = bad or 'combine_latest: a path of next() does not store the incoming item as the latest value of its side'
                    continue
                own = stored[0][0]
                if sm['ucalls']:
                    argv = sm['ucalls'][0][1]
                    if argv[0] == 'tuple' and len(argv[1]) == 2:
                        fresh = [x for x in argv[1] if is_item(x)]
                        olds = [x for x in argv[1] if x[0] == 'old']
                        if len(fresh) != 1 and all(P.decided(x) for x in argv[1]):
                            bad = 'combine_latest: the combinator is not applied to the item that just arrived (a stale value of the same side is combined)'
                        for o in olds:
                            if o[1][:len(own)] == own:
                                bad = 'combine_latest: the combinator is applied to the previous value of the side that just emitted'
                            c = P.cond_of(sm, lambda t, o=o: t[0] == 'discr' and t[1][0] == 'old' and o[1][:len(t[1][1])] == t[1][1])
                            if c == 0:
                                bad = 'combine_latest: combines although the other side has no value yet'
                    ne = P.emits(sm, 'next')
                    if len(ne) != 1 or (P.decided(ne[0][2]) and ne[0][2] != ('ucall', 0)):
                        bad = 'combine_latest: the result of the combinator must be forwarded exactly once'
                elif P.emits(sm, 'next'):
                    bad = 'combine_latest: emits without applying the combinator'
            return [(fn, bad, 'stores the item, then combines it with the other side\'s stored value')]
        if tag == 'ops::with_latest_from::AObserver':
            fn = cx.method(im, 'next')
            sums, _ = P.summaries(cx.graph(fn['key']))
            bad = None
            for sm, key in sums:
                ne = P.emits(sm, 'next')
                c = [val for term, val in sm['conds'] if term[0] == 'discr' and term[1][0] == 'old']
                if ne:
                    v = ne[0][2]
                    if len(ne) != 1:
                        bad = 'with_latest_from: more than one pair per primary item'
                    elif v[0] == 'tuple' and len(v[1]) == 2 and all(P.decided(x) for x in v[1]):
                        if not any(is_item(x) for x in v[1]) or not any(x[0] == 'old' for x in v[1]):
                            bad = 'with_latest_from: a pair must consist of the incoming item and the stored secondary value'
                    if 0 in c:
                        bad = 'with_latest_from: a pair is emitted although no secondary value is stored'
                elif c and all(x == 1 for x in c):
                    bad = 'with_latest_from: no pair is emitted although a secondary value is stored'
            return [(fn, bad, 'pairs the incoming item with the stored secondary value iff there is one')]
        if tag in ('ops::with_latest_from::BObserver', 'ops::sample::SourceObserver'):
            fn = cx.method(im, 'next')
            sums, _ = P.summaries(cx.graph(fn['key']))
            bad = None
            for sm, key in sums:
                if P.emits(sm):
                    bad = 'the storing side must not emit'
                stored = [v for k, v in sm['store'].items() if k[0] == 'S']
                if not any(v == ('some', item) for v in stored) and all(P.decided(v) for v in stored):
                    bad = 'a path of next() does not store the incoming item as the latest value'
            rows_ = [(fn, bad, 'stores the incoming item as the latest value, emits nothing')]
            if tag == 'ops::with_latest_from::BObserver':
                # the latest secondary value outlives the secondary input: its completion leaves the cell alone
                # (primary items that arrive later are still paired with it)
                fc = cx.method(im, 'complete')
                if fc is not None:
                    gc = cx.graph(fc['key'])
                    badc = None
                    for sm, key in P.summaries(gc)[0]:
                        if any(k[0] == 'S' for k in sm['store']):
                            badc = 'with_latest_from: the completion of the secondary input writes the latest-value cell: primary items that arrive afterwards find no secondary value and are dropped'
                    if any(n_['kind'] == 'call' and n_['name'] in TAKE for n_ in gc.nodes):
                        badc = 'with_latest_from: the completion of the secondary input empties the latest-value cell: primary items that arrive afterwards find no secondary value and are dropped'
                    rows_.append((fc, badc, 'the completion of the secondary input leaves the latest value in place'))
            return rows_
        if tag == 'ops::sample::SampleObserver':
            fn = cx.method(im, 'next')
            sums, _ = P.summaries(cx.graph(fn['key']))
            bad = None
            for sm, key in sums:
                ne = P.emits(sm, 'next')
                for e in ne:
                    v = e[2]
                    if P.decided(v) and v[0] != 'old':
                        bad = 'sample: a tick must release the stored value'
                    if v[0] == 'old' and 'as Some' in v[1]:
                        cell = v[1][:v[1].index('as Some')]
                        now = P.cur(sm, cell)
                        if P.decided(now) and now != ('none',):
                            bad = 'sample: the released value stays in the cell (the next tick would release it again)'
                c = [val for term, val in sm['conds'] if term[0] == 'discr' and term[1][0] == 'old']
                if not ne and c and all(x == 1 for x in c):
                    bad = 'sample: a tick releases nothing although a value is stored'
                if len(ne) > 1:
                    bad = 'sample: a tick releases more than one value'
            return [(fn, bad, 'a tick releases the stored value and empties the cell')]
        if 'merge::MergeObserver' in tag:
            fn = cx.method(im, 'next')
            sums, _ = P.summaries(cx.graph(fn['key']))
            bad = None
            for sm, key in sums:
                ne = P.emits(sm, 'next')
                if len(ne) > 1 or any(P.decided(e[2]) and e[2] != item for e in ne):
                    bad = 'merge: every incoming item must be forwarded once, unchanged'
                c = [val for term, val in sm['conds'] if term[0] == 'discr']
                if not ne and c and all(x == 1 for x in c):
                    bad = 'merge: an item is dropped although the downstream is still there'
            return [(fn, bad, 'forwards the incoming item unchanged')]
        return None
    want = ['combine_latest::CombineLatestObserver', 'ops::with_latest_from::AObserver', 'ops::with_latest_from::BObserver', 'ops::sample::SourceObserver',
            'ops::sample::SampleObserver', 'merge::MergeObserver']
    for im in cx.observer_impls():
        tag = roles.impl_tag(cx, im)
        if cx.control != ('verif_controls' in tag):
            continue
        r = rows(tag, im)
        if r is None:
            continue
        seen.add(tag)
        for fn, bad, good in r:
            res.append(Finding(ID, 'M7', cx.label(fn), not bad, bad or good, fn['span']))
    if not cx.control:
        for w in want:
            if not any(w in t for t in seen):
                res.append(Finding(ID, 'M7', 'table:' + w, False, 'operator not found (fail closed)'))
    return res


M8_TAGS = ['ops::buffer::NotifierObserver', 'ops::sample::SampleObserver']


def m8(cx):
    """completion of the notifier side releases what was gathered (no loss at the end)"""
    from .. import prov as P
    res = []
    if cx.control:
        return res
    seen = set()
    for im in cx.observer_impls():
        tag = roles.impl_tag(cx, im)
        if tag not in M8_TAGS:
            continue
        seen.add(tag)
        fn = cx.method(im, 'complete')
        g = cx.graph(fn['key'])
        bad = None
        if tag == 'ops::buffer::NotifierObserver':
            # the notifier shares the buffer observer with the source: it must end the stream through that observer's own
            # complete() (which flushes, C09.R-c), not by reaching into it and completing its downstream directly
            for x in g.nodes:
                if down_method(x) == 'complete' and x['args']:
                    root, steps = access_path(x['args'][0])
                    after = steps[steps.index('!take') + 1:] if '!take' in steps else steps
                    if any(not st.startswith(('as ', '@', '!', '[')) and st != '0' for st in after) or ('!take' not in steps and any(st == '@' for st in steps) and steps[-1] != '@'):
                        bad = 'the notifier completes the downstream of the shared buffer observer directly instead of through the buffer observer\'s own complete(): what was gathered since the last tick is lost'
            res.append(Finding(ID, 'M8', cx.label(fn), not bad, bad or 'ends the stream through the buffer observer\'s own complete() (which flushes first)', fn['span']))
            continue
        sums, _ = P.summaries(g, item_arg=0)
        for sm, key in sums:
            if not P.emits(sm, 'complete'):
                continue
            ne = P.emits(sm, 'next')
            if ne:
                if any(P.decided(e[2]) and not P.mentions_v(e[2], lambda x: x[0] == 'old') for e in ne):
                    bad = 'the value released at completion is not the gathered content'
                continue
            nothing = any((t[0] == 'pure' and t[1] == 'is_empty' and v == 1) or (t[0] == 'discr' and v == 0) or
                          (t[0] == 'op' and t[1] in ('Eq',) and v == 1 and P.mentions_v(t, lambda x: x[0] == 'pure' and x[1] == 'len'))
                          for t, v in sm['conds'])
            if not nothing:
                bad = 'completes downstream without releasing what was gathered since the last tick, on a path that never found it empty: the last items are lost'
        res.append(Finding(ID, 'M8', cx.label(fn), not bad, bad or 'the gathered content is released before the completion (skipped only when empty)', fn['span']))
    for t in M8_TAGS:
        if t not in seen:
            res.append(Finding(ID, 'M8', 'table:' + t, False, 'observer not found (fail closed)'))
    return res


def m9(cx):
    """items are delivered through the borrowed slot, never on an observer taken out of it (same rule as C01.P3)"""
    if cx.control:
        return []
    from . import c01
    out = []
    for f in c01.p3(cx, items=True):
        if any(t in f.key for t in ('merge::MergeObserver', 'zip::ZipObserver', 'combine_latest::CombineLatestObserver', 'Option<')):
            out.append(Finding(ID, 'M9', f.key, f.ok, f.msg, f.loc, f.witness))
    if len(out) < 6:
        out.append(Finding(ID, 'M9', 'floor', False, 'expected the shared observers of merge/zip/combine_latest, found %d' % len(out)))
    return out
