"""C15 — finalize runs its callback exactly once per subscription (DESIGN §3 C15)."""
from ..core import (Finding, lang_check, down_method, recv_class, FN_CALLS, UNSUB, TAKE, ACQUIRE)
from ..expr import access_path, strip
from .. import roles

ID = 'C15'
LEVEL = 'proof'
EXPLANATION = ('Proof by local obligations on FinalizerObserver / FinalizerSubscription / FinalizeOp*: N1 the callback type is bound by '
               'FnOnce() only and lives in an Option inside a shared cell created once per actual_subscribe (at most once by typing); '
               'N2+N4 error(), complete() and unsubscribe() each deliver the downstream terminal / inner unsubscribe first and then take() '
               'and call the callback on every path on which it is still there; N3 no other method takes or calls it; N5 the take() is made '
               'through the cell guard, so racing triggers cannot both obtain it; N9 actual_subscribe of the finalize operators neither takes nor calls the callback (subscribing is not one of the three events); N8 the subscriber cell is never vacated while an item is delivered (same rule as C06.J11: otherwise a racing unsubscribe runs the callback mid-delivery and the write-back revives the subscription); N7 the shared subscriber slot upstream of finalize stays locked while it delivers a terminal, so a racing unsubscribe cannot run the callback before the terminal is through (same rule as C02.U6); N6 the callback cell is the innermost lock: no method of the finalize observer/subscription calls the inner subscription or the downstream observer while holding its guard (a terminating thread takes the cell last, under the source-side locks: the opposite order blocks both and the callback never runs). All obligations must be discharged.')
ASSUMPTIONS = ['RefCell/Mutex give exclusive access to the Option<F> slot; a value moved out by Option::take cannot be obtained twice']
TECHNIQUE = 'static analysis: type-bound (SIG) obligations and regular-language rules over MIR event graphs'

TRIGGERS = {
    'ops::finalize::FinalizerObserver': ('observer::Observer', ['error', 'complete'], ['next', 'is_finished']),
    'ops::finalize::FinalizerSubscription': ('subscription::Subscription', ['unsubscribe'], ['is_closed']),
}
OPS = ['ops::finalize::FinalizeOp', 'ops::finalize::FinalizeOpThreads']

CONTROLS = [
    'N1|verif_controls::TwiceFinalizerObserver',
    'N2|<verif_controls::TwiceFinalizerObserver<O, F> as Observer>::complete',
    'N2|<verif_controls::LazyFinalizerSubscription<U, C> as Subscription>::unsubscribe',
    'N3|<verif_controls::TwiceFinalizerObserver<O, F> as Observer>::next',
]


def _tables(cx):
    t = dict(TRIGGERS)
    ops = list(OPS)
    if cx.control:
        t = {
            'verif_controls::TwiceFinalizerObserver': ('observer::Observer', ['error', 'complete'], ['next', 'is_finished']),
            'verif_controls::LazyFinalizerSubscription': ('subscription::Subscription', ['unsubscribe'], ['is_closed']),
        }
        ops = []
    return t, ops


def _mk_event(func_cls, sub_cls):
    def _event(n):
        if n['kind'] not in ('call', 'enter'):
            return None
        m = down_method(n)
        if m in ('error', 'complete'):
            return ('down',)
        if n['name'] == UNSUB and n['args'] and recv_class(n['args'][0]) == sub_cls:
            return ('down',)
        if n['name'] in FN_CALLS and n['args']:
            root, steps = access_path(n['args'][0])
            if recv_class(n['args'][0]) == func_cls:
                return ('fin',) if '!take' in steps else ('fin_notake',)
        if n['name'] in TAKE and n['args']:
            if recv_class(n['args'][0]) == func_cls:
                return ('take',)
        return None
    return _event


def _roles_of(cx, im, adt_path):
    """(callback cell field, inner subscription field or None) from the impl's bounds: the callback cell is the field whose
    type parameter is bounded by RcDerefMut (or is a MutRc|MutArc<Option<F>> with F: FnOnce|FnMut), the inner subscription
    the field whose parameter is bounded by Subscription"""
    F = cx.facts
    adt = F.adts.get(adt_path)
    st = F.ty(F.strip_refs(im['self']))
    amap = dict(zip(adt['generics'], [F.tystr(a) for a in st.get('a', [])])) if adt else {}
    bounds = {}
    for p in im['preds']:
        if p['k'] == 'trait':
            bounds.setdefault(F.tystr(p['self']), set()).add(p['tr'])
    func = sub = None
    for n, t in roles.adt_fields(cx, adt_path):
        ty = F.ty(t)
        if ty['k'] == 'param':
            b = bounds.get(amap.get(ty['n'], ty['n']), set())
            if 'rc::RcDerefMut' in b or 'rc::RcDeref' in b:
                func = n
            elif 'subscription::Subscription' in b:
                sub = n
        elif roles.is_cell_of(F, ty, lambda o: roles.is_option_of(F, o, lambda x: x['k'] == 'param')):
            func = n
    if func is None:
        from ..core import Incomplete
        raise Incomplete('cannot identify the callback cell of %s' % adt_path)
    return 'self.' + func, ('self.' + sub) if sub else None


def check(cx):
    _env_wrapped = True
    from . import c03
    return _check_own(cx) + n7(cx) + c03.envelopes(cx, ID)


def n7(cx):
    """'right after the first of those events, never before it' across threads: the subscriber cell that finalize's upstream delivers
    through stays locked while a terminal is on its way (same rule as C02.U6), so an unsubscribe() racing that terminal — which takes
    the same cell before it reaches FinalizerSubscription::unsubscribe — waits until the terminal (and the callback behind it) is
    through; released earlier, the unsubscribing thread runs the callback while complete()/error() is still being delivered"""
    if cx.control:
        return []
    from . import c02
    out = [Finding(ID, 'N7', f.key, f.ok, f.msg, f.loc, f.witness) for f in c02.u6(cx) if '::error' in f.key or '::complete' in f.key]
    if len(out) < 4:
        out.append(Finding(ID, 'N7', 'floor', False, 'expected the terminal methods of the two shared-slot observers, found %d' % len(out)))
    # N8: ... and it is never vacated while an item is delivered (same rule as C06.J11 / C03.S14): an unsubscribe() that finds the
    # subscriber cell empty returns at once and runs the callback in the middle of the delivery; the write-back then revives the
    # subscription, so items and the terminal follow the callback and the real end runs none
    from . import c01
    n8 = [Finding(ID, 'N8', f.key, f.ok, f.msg, f.loc, f.witness) for f in c01.p3(cx, items=True) if 'subscriber::Subscriber' in f.key and '::next' in f.key]
    if len(n8) < 2:
        n8.append(Finding(ID, 'N8', 'floor', False, 'expected next() of Subscriber and SubscriberThreads, found %d' % len(n8)))
    return out + n8


def _check_own(cx):
    F = cx.facts
    res = []
    table, ops = _tables(cx)
    found = set()
    for im in F.impls.values():
        tag = roles.impl_tag(cx, im)
        if tag not in table or im.get('trait') != table[tag][0]:
            continue
        found.add(tag)
        trait, triggers, others = table[tag]
        func_cls, sub_cls = _roles_of(cx, im, tag)
        _event = _mk_event(func_cls, sub_cls)
        _down_only = lambda n, _e=_event: (lambda t: t if t == ('down',) else None)(_e(n))
        # N1: bounds of the callback parameter
        fparams = set()
        for p in im['preds']:
            if p['k'] == 'trait' and p['tr'] in ('std::ops::FnOnce', 'std::ops::FnMut', 'std::ops::Fn'):
                fparams.add(F.tystr(p['self']))
        ok = bool(fparams)
        why = 'callback parameter(s) %s bound by FnOnce only' % sorted(fparams)
        for p in im['preds']:
            if p['k'] == 'trait' and F.tystr(p['self']) in fparams and p['tr'] not in ('std::ops::FnOnce', 'std::marker::Sized'):
                ok = False
                why = 'callback parameter %s is additionally bound by %s: a callback that can be called or copied again is not "at most once by typing"' % (F.tystr(p['self']), p['tr'])
        if not fparams:
            why = 'no FnOnce-bound callback parameter found'
        res.append(Finding(ID, 'N1', tag, ok, why, im['span']))
        for meth in triggers:
            fn = F.impl_fn(im, meth)
            label = cx.label(fn)
            g = cx.graph(fn['key'])
            bad = lang_check(g, 'down', _down_only, exact=True, empty_ok=False)
            if not bad:
                bad = lang_check(g, 'down take fin', _event, exact=True, empty_ok=True, classes={func_cls})
            if bad:
                res.append(Finding(ID, 'N2', label, False, 'trigger must deliver downstream, then take() and call the callback once: ' + bad[0], fn['span'], bad[1]))
            else:
                res.append(Finding(ID, 'N2', label, True, "word = 'down take fin' on every path (callback skipped only when the slot is already empty)", fn['span']))
            # N5: take through the guard
            takes = [n for n in g.nodes if _event(n) == ('take',)]
            okg = bool(takes)
            for n in takes:
                a = strip(n['args'][0])
                if not (a[0] == 'call' and a[1] in ACQUIRE):
                    okg = False
            res.append(Finding(ID, 'N5', label, okg, 'callback taken through the cell guard' if okg else 'callback is not taken through a guard of the shared cell', fn['span']))
        for meth in others:
            fn = F.impl_fn(im, meth)
            if fn is None:
                continue
            label = cx.label(fn)
            g = cx.graph(fn['key'])
            ev = lambda n: (lambda t: t if t and t != ('down',) else None)(_event(n))
            bad = lang_check(g, '', ev, exact=False, empty_ok=False)
            if bad:
                res.append(Finding(ID, 'N3', label, False, 'the callback is taken or called outside the three triggers: ' + bad[0], fn['span'], bad[1]))
            else:
                res.append(Finding(ID, 'N3', label, True, 'does not touch the callback', fn['span']))
        # N6: the callback cell is the innermost lock: while its guard is held nothing is asked of the inner subscription or the
        # downstream observer. The terminating thread comes with the source's locks held and takes the callback cell last; a thread
        # going the other way round (cell first, then the source) blocks it for ever and the callback of a terminated subscription never runs
        from ..core import lock_scopes, node_desc
        for meth in triggers + others:
            fn = F.impl_fn(im, meth)
            if fn is None:
                continue
            g = cx.graph(fn['key'])
            held = lock_scopes(g)
            badn = []
            for n in g.nodes:
                if n['kind'] not in ('call', 'enter') or not n['args'] or n['ctx']:
                    continue
                if not any(h[1] == func_cls for h in held[n['id']]):
                    continue
                rc_ = recv_class(n['args'][0])
                if rc_ == func_cls or not rc_.startswith('self.') or n['name'] in FN_CALLS:
                    continue
                badn.append(n)
            res.append(Finding(ID, 'N6', cx.label(fn), not badn,
                               'nothing is asked of the source or the downstream while the callback cell is locked' if not badn else
                               'calls %s on %s while holding the guard of the callback cell: a thread delivering complete()/error() holds the source-side locks and waits for this cell, this thread holds the cell and waits for them — neither proceeds and the callback of the terminated subscription never runs' % (
                                   badn[0]['name'].rsplit('::', 1)[-1], recv_class(badn[0]['args'][0])),
                               g.loc(badn[0]) if badn else fn['span'], [node_desc(g, x) for x in badn]))
    # operator side: one cell per subscription, created from self.func
    for im in F.impls_of('observable::Observable'):
        tag = roles.impl_tag(cx, im)
        if tag not in ops:
            continue
        found.add(tag)
        fn = F.impl_fn(im, 'actual_subscribe')
        label = cx.label(fn)
        g = cx.graph(fn['key'])
        owns = [n for n in g.nodes if n['kind'] == 'call' and n['name'].startswith(('rc::MutRc::own', 'rc::MutArc::own'))]
        opf = [n_ for n_, t_ in roles.adt_fields(cx, tag) if F.ty(t_)['k'] == 'param' and any(p['k'] == 'trait' and p['tr'] == 'std::ops::FnOnce' and F.tystr(p['self']) == dict(zip(F.adts[tag]['generics'], [F.tystr(a) for a in F.ty(F.strip_refs(im['self'])).get('a', [])])).get(F.ty(t_)['n'], F.ty(t_)['n']) for p in im['preds'])]
        ok = len(owns) == 1 and bool(opf) and ('self.' + opf[0]) in _render_all(owns[0])
        fpred = [p for p in im['preds'] if p['k'] == 'trait' and p['tr'] in ('std::ops::FnOnce', 'std::ops::FnMut', 'std::ops::Fn', 'std::clone::Clone', 'std::marker::Copy') and F.ty(p['self'])['k'] == 'param' and any(q['tr'] == 'std::ops::FnOnce' and q['self'] == p['self'] for q in im['preds'] if q['k'] == 'trait')]
        only_once = all(p['tr'] in ('std::ops::FnOnce', 'std::marker::Sized') for p in fpred) and any(p['tr'] == 'std::ops::FnOnce' for p in fpred)
        res.append(Finding(ID, 'N1', label, ok and only_once,
                           'one shared Option cell per subscription, created from self.func; F: FnOnce() only' if ok and only_once else
                           'expected exactly one $rc::own(Some(self.func)) per actual_subscribe and F bound by FnOnce only', fn['span']))
        # N9: subscribing is not one of the three events: actual_subscribe neither takes anything out of an Option nor calls a closure
        # (the callback would run before any complete / error / unsubscribe of this subscription, and none would follow the real event)
        from ..core import node_desc
        early = [n for n in g.nodes if n['kind'] in ('call', 'enter') and (n['name'] in FN_CALLS or n['name'] in TAKE)]
        res.append(Finding(ID, 'N9', label, not early,
                           'subscribing neither takes nor calls the callback' if not early else
                           'actual_subscribe takes or calls a closure (%s): subscribing is none of complete / error / unsubscribe, the callback runs before the first of those events and not after it' % early[0]['name'].rsplit('::', 2)[-2:],
                           g.loc(early[0]) if early else fn['span'], [node_desc(g, x) for x in early]))
    if not cx.control:
        for tag in list(table) + ops:
            if tag not in found:
                res.append(Finding(ID, 'N1', 'table:' + tag, False, 'table entry matches no impl (fail closed)'))
    return res


def _render_all(n):
    from ..expr import render
    return ' '.join(render(a) for a in n['args'])


def thorough():
    from ..witness import run_witnesses
    return run_witnesses(ID, ['w2'])
