"""C03 — sources and single-input operators: termination shape (DESIGN §3 C03)."""
from ..core import (Finding, lang_check, down_token, down_or_sched_token, SUBSCRIBE, FN_CALLS, down_method, node_desc)
from .. import roles
from ..expr import access_path, strip, walk

ID = 'C03'
LEVEL = 'other'
EXPLANATION = ('LANG rules over the inlined MIR event graph of every source and every Observer impl: '
               'S1 each basic source delivers exactly its documented notification shape (of = next complete, never = nothing, ...); '
               'S2 error() forwards the error as the only downstream event (no item, aggregate or completion with it) and never swallows it; '
               'S3 complete() delivers next* then exactly one complete; S5 is_finished answers true only for an empty slot or a finished downstream (otherwise a hot source skips the operator at its terminal); S6 the take_last/skip_last queues are first-in-first-out; S7 the take_last queue never holds more than `count` items after next(), for every count >= 0 (interval abstract interpretation of len - count); S8 the next() bodies of take, skip, skip_last, filter, take_while and skip_while agree with their definitions path by path (decision tables over the counter/bound difference, the predicate result and the mode flags; both directions); S9 distinct_until_(key_)changed replace their remembered item by the incoming one exactly when they forward it and never empty it; S10 value-flow definitions by path-sensitive provenance dataflow: last remembers every item and emits the remembered one, scan applies f(acc, item) once, stores and emits the new acc, default_if_empty clears its flag on every item and emits the default iff it is still set, pairwise emits (previous, item) and refills the previous slot, collect adds every item and emits the collection, map/tap/filter_map/on_error_map apply the user function once to the incoming value and forward as defined, contains answers true exactly on equality and false at the end, distinct(_key) forwards iff the key is new and then records it, buffer_with_count releases and empties the buffer exactly when it holds count items (undecidable terms pass); S13 initial state: a flag that the notification handlers only ever set to one constant starts as the other one, a counter they only increment starts at 0, wherever the state is constructed (through operator fields and constructors if need be); S15 no observer type has a Drop impl (a source dropping its observer is neither a terminal nor an unsubscription); S14 no function takes the content of a shared slot (MutRc|MutArc<Option<..>>) out and stores the same value back later: while it is out the slot reads as terminated to every other input, thread and hot source; S12 no terminal is dropped silently: in error()/complete() of every Observer impl, a path that does nothing at all (no call, no write, no take) must have found the slot it would act on empty - an early return on any other condition swallows the terminal (tabled: the notifier sides that ignore their own terminal by definition); S11 the derived operators are the compositions their documentation states: the operator tree each ObservableExt builder returns (provided methods and constructors inlined) is compared with its definition — first = take(1), element_at(n) = skip(n).take(1), all = map.filter(not).take(1).default_if_empty(true), reduce = scan.last.default_if_empty(initial), count/sum/min/max/average with the arithmetic and the comparison direction of their folding functions, take_while vs take_while_inclusive by their flag (38 builders); S4 next() never sends an error and completes downstream only in the '
               'tabled early terminators. Decides the termination shape on every path and, for the tabled operators, which items are forwarded and where each emitted value comes from; does not decide what user closures compute.')
ASSUMPTIONS = ['what user closures compute is not decided; a provenance term the dataflow cannot resolve makes that clause undecided (it passes)']
TECHNIQUE = 'static analysis: regular-language inclusion of downstream event words, path-sensitive interval and provenance dataflow, and operator-tree matching of builder return values, all over type-checked MIR (custom rustc_private driver)'

# ---- S1: documented shape of the basic sources, keyed by the Self type of the Observable impl / fn path
SOURCE_SPECS = {
    'observable::from_iter::ObservableIter': 'next* complete',
    'observable::of::OfObservable': 'next complete',
    'observable::of::OptionObservable': 'next? complete',
    'observable::of::ResultObservable': '(next complete) | error',
    'observable::of::CallableObservable': 'next complete',
    'observable::trivial::EmptyObservable': 'complete',
    'observable::trivial::ThrowObservable': 'error',
    'observable::trivial::NeverObservable': '',
    'observable::from_fn::ObservableFn': '',          # create(): the user closure drives the subscriber
    # operators that emit on their own before subscribing their source
    'ops::start_with::StartWithOp': 'next* sub',
    'subject::behavior_subject::BehaviorSubject': 'next sub',
}
# documented shape of the one-shot task a scheduled source runs, keyed by the source type (the task function itself is found through
# the Scheduler::schedule call of that type's actual_subscribe, whatever it is called)
TASK_SPECS = {
    'observable::from_future::FutureObservable': 'next complete',
    'observable::from_future::FutureResultObservable': '(next complete) | error',
    'observable::timer::TimerObservable': 'next complete',
}

# ---- S2/S3/S4: envelopes of the Observer methods, keyed by roles.impl_tag; default first
DEFAULT = {'next': 'next*', 'error': 'error', 'complete': 'complete'}
EXC = {
    # operators that release what they gathered when the input completes (flush, then complete)
    'ops::last::LastObserver::complete': 'next? complete',
    'ops::take_last::TakeLastObserver::complete': 'next* complete',
    'ops::default_if_empty::DefaultIfEmptyObserver::complete': 'next? complete',
    'ops::collect::CollectObserver::complete': 'next complete',
    'ops::contains::ContainsObserver::complete': '(next complete)?',
    'ops::buffer::BufferObserver::complete': 'next? complete',
    'ops::buffer::BufferWithCountObserver::complete': 'next? complete',
    'ops::debounce::DebounceObserver::complete': 'next? complete',
    'ops::throttle::ThrottleObserver::complete': 'next? complete',
    # early terminators (complete from inside next, on the value taken out of the slot: C16.E4)
    'ops::take::TakeObserver::next': 'next? complete?',
    'ops::take_while::TakeWhileObserver::next': 'next? complete?',
    'ops::contains::ContainsObserver::next': '(next complete)?',
    'ops::take_until::TakeUntilNotifierObserver::next': 'complete',
    # notifier-position observers: their own terminal does not terminate the output (C04.M3)
    'ops::take_until::TakeUntilNotifierObserver::error': '',
    'ops::take_until::TakeUntilNotifierObserver::complete': '',
    'ops::skip_until::SkipUntilNotifierObserver::next': '',
    'ops::skip_until::SkipUntilNotifierObserver::error': '',
    'ops::skip_until::SkipUntilNotifierObserver::complete': '',
    'ops::with_latest_from::BObserver::complete': '',
    'ops::with_latest_from::BObserver::next': '',
    'ops::sample::SampleObserver::complete': 'next?',
    'ops::sample::SourceObserver::next': '',
    # on_error consumes the error (downstream error type is Infallible)
    'ops::on_error::OnErrorObserver::error': '',
    # shared two-input observers complete when both inputs have (C04.M2)
    'MutRc<ops::merge::MergeObserver>::complete': 'complete?',
    'MutArc<ops::merge::MergeObserver>::complete': 'complete?',
    'MutRc<ops::zip::ZipObserver>::complete': 'complete?',
    'MutArc<ops::zip::ZipObserver>::complete': 'complete?',
    'MutRc<ops::zip::ZipObserver>::next': 'next?',
    'MutArc<ops::zip::ZipObserver>::next': 'next?',
    'MutRc<ops::combine_latest::CombineLatestObserver>::complete': 'complete?',
    'MutArc<ops::combine_latest::CombineLatestObserver>::complete': 'complete?',
    # flattening: completion depends on the running inner subscriptions (C05)
    'ops::merge_all::InnerObserver::complete': 'complete?',
    'ops::merge_all::InnerObserverThreads::complete': 'complete?',
    'ops::merge_all::OutsideObserver::complete': 'complete?',
    'ops::merge_all::OutsideObserverThreads::complete': 'complete?',
    'ops::merge_all::OutsideObserver::next': '',
    'ops::merge_all::OutsideObserverThreads::next': '',
    # group_by terminates every group, then the outer stream (C20.G2)
    'ops::group_by::GroupByObserver::next': 'next? next',
    'ops::group_by::GroupByObserver::error': 'error* error',
    'ops::group_by::GroupByObserver::complete': 'complete* complete',
    # buffering operators keep items until a boundary
    'ops::buffer::BufferObserver::next': '',
    'ops::buffer::BufferWithCountObserver::next': 'next?',
    'ops::buffer::NotifierObserver::next': 'next?',
    'ops::buffer::NotifierObserver::complete': 'next? complete',
    'ops::collect::CollectObserver::next': '',
    'ops::last::LastObserver::next': '',
    'ops::take_last::TakeLastObserver::next': '',
    'ops::skip_while::SkipWhileObserver::next': 'next?',
    'ops::take_while::TakeWhileObserver::complete': 'complete',
    'ops::take::TakeObserver::complete': 'complete',
}
# impls whose exceptions were written for several instances of one macro share the tag already.

CONTROLS = [
    'S1|<verif_controls::NeverButCompletes as Observable>::actual_subscribe',
    'S2|<verif_controls::FlushOnErrorObserver<O, Item> as Observer>::error',
    'S2|<verif_controls::SwallowErrorObserver<O> as Observer>::error',
    'S3|<verif_controls::NoCompleteObserver<O> as Observer>::complete',
    'S4|<verif_controls::CompleteInNext<O> as Observer>::next',
    'S5|<verif_controls::AlwaysFinishedObserver<O> as Observer>::is_finished',
    'S14|verif_controls::ctl_flush_unlocked',
    'S6|src/verif_controls.rs field `stack`',
    'S7|<verif_controls::RingLast<O, Item> as Observer>::next',
    'S8|<verif_controls::OffByOneTake<O> as Observer>::next',
    'S9|<verif_controls::ForgetfulDistinct<O, Item> as Observer>::next',
    'S10|<verif_controls::FirstKeeper<O, Item> as Observer>::next',
    'S10|<verif_controls::StaleScan<O, F, A> as Observer>::next',
    'S10|<verif_controls::SwappedPairs<O, Item> as Observer>::next',
    'S12|<verif_controls::QuietOnFinished<O> as Observer>::complete',
    'S13|verif_controls::PreCompleted.completed_one',
    'S11|verif_controls::ctl_second',
    'S11|verif_controls::ctl_smallest',
]


# ---- scope: the shape rules (S1-S5, S12, S13) run over every impl of the crate, but a finding is reported under the property that owns
# the file it is in: C03 keeps the sources and single-input operators of its statement (and the shared infrastructure), the others
# take theirs through envelopes(cx, <property>) as rule ENV
OWNERS = {
    'C04': ('src/ops/merge.rs', 'src/ops/zip.rs', 'src/ops/combine_latest.rs', 'src/ops/with_latest_from.rs', 'src/ops/take_until.rs', 'src/ops/skip_until.rs',
            'src/ops/sample.rs'),
    'C05': ('src/ops/merge_all.rs',),
    'C06': ('src/subject.rs', 'src/subscriber.rs'),
    'C07': ('src/ops/delay.rs', 'src/ops/observe_on.rs', 'src/ops/subscribe_on.rs'),
    'C08': ('src/observable/interval.rs', 'src/observable/timer.rs', 'src/observable/from_stream.rs', 'src/observable/from_stream_result.rs', 'src/observable/from_future.rs'),
    'C09': ('src/ops/debounce.rs', 'src/ops/throttle.rs'),
    'C11': ('src/ops/ref_count.rs', 'src/observable/connectable_observable.rs'),
    'C12': ('src/subject/behavior_subject.rs',),
    'C14': ('src/ops/future.rs', 'src/ops/stream.rs', 'src/ops/complete_status.rs'),
    'C15': ('src/ops/finalize.rs',),
    'C20': ('src/ops/group_by.rs',),
}
SCOPED = ('S1', 'S2', 'S3', 'S4', 'S5', 'S12', 'S13', 'S14', 'S15')
# files that serve several properties: reported under C03 and, in addition, under these
SHARED_FILES = {'src/ops/buffer.rs': ('C04', 'C09'), 'src/ops/sample.rs': ('C09',)}


def _owner(f):
    if f.key.startswith(('table:', 'floor')) or f.key == 'floor':
        return None
    file = (f.loc or '').split(':', 1)[0]
    for prop, files in OWNERS.items():
        if file in files:
            return prop
    return None


def _all(cx):
    return s1(cx) + s234(cx) + s5(cx) + s6(cx) + s7(cx) + s8(cx) + s9(cx) + s10(cx) + s11(cx) + s12(cx) + s13(cx) + s14(cx) + s15(cx)


def check(cx):
    return [f for f in _all(cx) if not (f.rule in SCOPED and _owner(f))]


def envelopes(cx, prop):
    """the shape findings (notification envelopes, is_finished answers, silent terminals, initial state) for the files `prop` owns"""
    if cx.control:
        return []
    out = []
    for f in s1(cx) + s234(cx) + s5(cx) + s12(cx) + s13(cx) + s14(cx) + s15(cx):
        if f.rule not in SCOPED:
            continue
        file = (f.loc or '').split(':', 1)[0]
        if _owner(f) == prop or prop in SHARED_FILES.get(file, ()):
            out.append(Finding(prop, 'ENV', f.rule + ':' + f.key, f.ok, f.msg, f.loc, f.witness))
    return out


def _src_event(n):
    t = down_token(n)
    if t:
        return t
    if n['kind'] in ('call', 'enter') and n['name'] == SUBSCRIBE:
        return ('sub',)
    return None


def s1(cx):
    F = cx.facts
    res = []
    seen = set()
    for im in sorted(F.impls_of('observable::Observable'), key=lambda i: (i['file'], i['line'], i['self_s'])):
        fn = F.impl_fn(im, 'actual_subscribe')
        if fn is None:
            continue
        g = cx.graph(fn['key'])
        label = cx.label(fn)
        tag = roles.impl_tag(cx, im)
        emits = [n for n in g.nodes if down_method(n) in ('next', 'error', 'complete')]
        spec = SOURCE_SPECS.get(tag)
        if spec is None:
            if emits and not tag.startswith('verif_controls'):
                res.append(Finding(ID, 'S1', label, False, 'unclassified source: actual_subscribe emits downstream but has no documented shape in the table', fn['span']))
            if not tag.startswith('verif_controls'):
                continue
            spec = ''  # controls are sources that must emit nothing
        seen.add(tag)
        if g.incomplete:
            res.append(Finding(ID, 'S1', label, False, 'analysis incomplete: %r' % (g.incomplete,), fn['span']))
            continue
        bad = lang_check(g, spec, _src_event, exact=True, empty_ok=False)
        if bad:
            res.append(Finding(ID, 'S1', label, False, 'source does not follow its documented shape: ' + bad[0], fn['span'], bad[1]))
        else:
            res.append(Finding(ID, 'S1', label, True, "word ⊆ '%s'" % spec, fn['span']))
    from ..core import SCHEDULE, sched_task_fn
    for im in sorted(F.impls_of('observable::Observable'), key=lambda i: (i['file'], i['line'], i['self_s'])):
        tag = roles.impl_tag(cx, im)
        spec = TASK_SPECS.get(tag)
        if spec is None:
            continue
        fn0 = F.impl_fn(im, 'actual_subscribe')
        g0 = cx.graph(fn0['key'])
        k = None
        for x in g0.nodes:
            if x['kind'] in ('call', 'enter') and x['name'] == SCHEDULE:
                info = sched_task_fn(cx, x)
                if info and info[1]:
                    k = info[1]
        key = 'task of ' + tag
        fn = F.fns.get(k) if k else None
        if fn is None:
            res.append(Finding(ID, 'S1', 'table:' + key, False, 'the task function this source schedules could not be identified'))
            continue
        seen.add('task:' + tag)
        g = cx.graph(k)
        bad = lang_check(g, spec, _src_event, exact=True, empty_ok=False)
        if bad:
            res.append(Finding(ID, 'S1', key, False, 'task does not follow its documented shape: ' + bad[0], fn['span'], bad[1]))
        else:
            res.append(Finding(ID, 'S1', key, True, "word ⊆ '%s'" % spec, fn['span']))
    if not cx.control:
        for tag in TASK_SPECS:
            if 'task:' + tag not in seen:
                res.append(Finding(ID, 'S1', 'table:task of ' + tag, False, 'scheduled source not found (fail closed)'))
    if not cx.control:
        for tag in SOURCE_SPECS:
            if tag not in seen:
                res.append(Finding(ID, 'S1', tag, False, 'table entry matches no Observable impl (fail closed)'))
    return res


def s234(cx):
    res = []
    ev = down_or_sched_token(cx)
    used = set()
    for im in cx.observer_impls():
        if roles.is_leaf_observer(cx, im):
            continue
        tag = roles.impl_tag(cx, im)
        for meth, rule in (('error', 'S2'), ('complete', 'S3'), ('next', 'S4')):
            fn = cx.method(im, meth)
            if fn is None:
                continue
            label = cx.label(fn)
            g = cx.graph(fn['key'])
            if g.incomplete:
                res.append(Finding(ID, rule, label, False, 'analysis incomplete: %r' % (g.incomplete,), fn['span']))
                continue
            k = '%s::%s' % (tag, meth)
            spec = EXC.get(k)
            if spec is not None:
                used.add(k)
            else:
                spec = DEFAULT[meth]
            bad = lang_check(g, spec, ev, exact=(meth != 'next'), empty_ok=True)
            if bad:
                res.append(Finding(ID, rule, label, False, '%s() breaks its envelope: %s' % (meth, bad[0]), fn['span'], bad[1]))
            else:
                res.append(Finding(ID, rule, label, True, "downstream word of %s() ⊆ '%s'" % (meth, spec), fn['span']))
    if not cx.control:
        for k in EXC:
            if k not in used:
                res.append(Finding(ID, 'S2', 'table:' + k, False, 'exception table entry matches no Observer method (fail closed)'))
    return res


def s5(cx):
    """an operator may report itself finished only when its downstream slot is empty or the downstream is finished:
    a hot source skips finished subscribers when it terminates, so a premature `true` loses the terminal"""
    from . import c16
    out = []
    for f in c16.e1(cx):
        if not f.ok and (getattr(f, 'state', None) == 'under' or f.msg.startswith(('answers only whether its own slot is empty', 'returns the constant false', 'empty-slot path'))):
            # answers false too often: no terminal is lost by that (the producer-retirement half is C16.E1)
            out.append(Finding(ID, 'S5', f.key, True, 'never answers true for a live downstream (it under-reports finished: C16.E1)', f.loc))
            continue
        out.append(Finding(ID, 'S5', f.key, f.ok, f.msg if f.ok else (f.msg + ' — a hot source (Subject) skips subscribers that report finished when it delivers its terminal, so the output never terminates'), f.loc, f.witness))
    return out


def s6(cx):
    from ..core import fifo_findings
    res = fifo_findings(cx, ID, 'S6', ('src/ops/take_last.rs', 'src/ops/skip_last.rs'))
    if not cx.control and len(res) < 2:
        res.append(Finding(ID, 'S6', 'floor', False, 'expected the take_last / skip_last queues, found %d' % len(res)))
    return res


# observers that keep at most `bound` items in a queue: tag -> (queue field, bound field)
BOUNDED = {'ops::take_last::TakeLastObserver': ('queue', 'count')}


def s7(cx):
    """take_last keeps at most `count` items: abstract interpretation of len(queue) - count over next(),
    for every count >= 0 (a pop on an empty queue removes nothing)"""
    from ..bounded import check_bound
    res = []
    seen = set()
    for im in cx.observer_impls():
        tag = roles.impl_tag(cx, im)
        spec = BOUNDED.get(tag)
        if cx.control and tag == 'verif_controls::RingLast':
            spec = ('queue', 'count')
        if spec is None:
            continue
        seen.add(tag)
        fn = cx.method(im, 'next')
        g = cx.graph(fn['key'])
        bad = check_bound(g, *spec)
        res.append(Finding(ID, 'S7', cx.label(fn), not bad, bad[0] if bad else 'len(%s) <= %s re-established on every path of next(), for every bound >= 0' % spec, fn['span'], bad[1] if bad else None))
    if not cx.control:
        for t in BOUNDED:
            if t not in seen:
                res.append(Finding(ID, 'S7', 'table:' + t, False, 'bounded-queue observer not found (fail closed)'))
    return res


# ---- S8: decision tables of the counting / predicate operators (definition of next(), checked path by path)
def _spec_take(s):
    if s['bad']:
        return s['bad']
    if s['empty']:
        return None if s['emit'] == 0 and not s['complete'] else 'acts although the downstream slot is empty'
    if s['emit'] > 0:
        if s['emit'] != 1 or s['other']:
            return 'forwards the item more than once'
        if not (s['hi'] is not None and s['hi'] <= -1):
            return 'forwards an item although the quota may already be used up (hits >= count)'
        if s['k'] != 1:
            return 'forwards an item without counting it exactly once'
        if s['complete'] and not (s['lo'] == -1 and s['hi'] == -1):
            return 'completes although the quota is not exactly reached'
        if not s['complete'] and not (s['hi'] <= -2):
            return 'does not complete when the item that fills the quota is forwarded'
        return None
    if not (s['lo'] is not None and s['lo'] >= 0):
        return 'drops an item although the quota is not used up (hits < count)'
    if s['k'] != 0 or s['complete']:
        return 'counts or completes on a path that forwards nothing'
    return None


def _spec_skip(s):
    if s['bad']:
        return s['bad']
    if s['k'] != 1:
        return 'an incoming item is not counted exactly once'
    if s['emit'] > 1 or s['other'] or s['complete']:
        return 'forwards more than the incoming item / terminates from next()'
    if s['emit'] == 1 and not (s['lo'] is not None and s['lo'] >= 0):
        return 'forwards an item that is among the first `count` (must be skipped)'
    if s['emit'] == 0 and not (s['hi'] is not None and s['hi'] <= -1):
        return 'drops an item that comes after the first `count`'
    return None


def _spec_skip_last(s):
    if s['bad']:
        return s['bad']
    if s['emit'] > 1 or s['other'] or s['complete']:
        return 'releases more than one held-back item / terminates from next()'
    if s['emit'] == 1 and not (s['lo'] == 0 and s['hi'] == 0 and s['k'] == 0):
        return 'releases an item while fewer than `count` items are held back'
    if s['emit'] == 0 and not (s['lo'] is not None and s['lo'] >= 1 and s['k'] == -1):
        return 'holds an item back without counting it down exactly once, or although `count` items are already held back'
    return None


def _spec_filter(s):
    if s['pred'] is None:
        return 'the item is handled on a path that never asked the predicate'
    if s['emit'] > 1 or s['other'] or s['complete']:
        return 'forwards more than the incoming item / terminates from next()'
    if (s['emit'] == 1) != (s['pred'] == 1):
        return 'forwards the item exactly when the predicate is false' if s['pred'] == 0 else 'drops an item the predicate accepted'
    return None


def _spec_take_while(s):
    if s['empty']:
        return None if s['emit'] == 0 and not s['complete'] else 'acts although the downstream slot is empty'
    if s['pred'] is None:
        return 'the item is handled on a path that never asked the predicate'
    if s['emit'] > 1 or s['other']:
        return 'forwards the item more than once'
    if s['pred'] == 1:
        return None if (s['emit'] == 1 and not s['complete']) else 'an accepted item must be forwarded and the stream go on'
    incl = s['flags'].get('inclusive')
    if not s['complete']:
        return 'the first rejected item must complete the stream'
    if incl is None:
        return 'the rejected item is handled without consulting the inclusive flag'
    if (s['emit'] == 1) != (incl == 1):
        return 'the rejected item is forwarded exactly when inclusive is false'
    return None


def _spec_skip_while(s):
    done = s['flags'].get('done')
    if s['emit'] > 1 or s['other'] or s['complete']:
        return 'forwards more than the incoming item / terminates from next()'
    if done == 1:
        return None if s['emit'] == 1 else 'drops an item after skipping is over'
    if done is None:
        return 'the item is handled without consulting the done-skipping flag'
    if s['pred'] is None:
        return 'while skipping, the item is handled without asking the predicate'
    if s['pred'] == 1:
        return None if (s['emit'] == 0 and s['sets'].get('done') != 1) else 'an item the predicate still matches must be skipped and skipping must go on'
    return None if (s['emit'] == 1 and s['sets'].get('done') == 1) else 'the first item the predicate rejects must be forwarded and end the skipping'


S8_TABLE = {
    'ops::take::TakeObserver': ('take', _spec_take),
    'ops::skip::SkipObserver': ('skip', _spec_skip),
    'ops::skip_last::SkipLastObserver': ('skip_last', _spec_skip_last),
    'ops::filter::FilterObserver': ('filter', _spec_filter),
    'ops::take_while::TakeWhileObserver': ('take_while', _spec_take_while),
    'ops::skip_while::SkipWhileObserver': ('skip_while', _spec_skip_while),
}


def s8(cx):
    from ..tables import summaries
    from ..core import witness, interesting_default, Incomplete
    from ..expr import access_path, strip
    F = cx.facts
    res = []
    seen = set()
    for im in cx.observer_impls():
        tag = roles.impl_tag(cx, im)
        ent = S8_TABLE.get(tag)
        if cx.control and tag == 'verif_controls::OffByOneTake':
            ent = ('take', _spec_take)
        if ent is None:
            continue
        kind, spec = ent
        seen.add(tag)
        fn = cx.method(im, 'next')
        g = cx.graph(fn['key'], snapshots=True)
        label = cx.label(fn)
        fields = roles.adt_fields(cx, tag)
        usizes = [f for f, t in fields if F.tystr(t) == 'usize']
        bools = [f for f, t in fields if F.tystr(t) == 'bool']
        written = set()
        for x in g.nodes:
            if x['kind'] == 'assign':
                root, steps = access_path(x['lhs'])
                if root[0] == 'arg' and root[1] == 1 and steps:
                    written.add(steps[-1])
        slots = {'self.' + f for f, t in fields if roles.is_option_of(F, F.ty(t))}
        kw = dict(slot_classes=slots)
        if kind in ('take', 'skip'):
            zero = set()
            for fn0 in F.fns.values():
                for b0 in fn0['blocks']:
                    for s0 in b0['s']:
                        if s0['k'] == 'assign' and s0['rv']['r'] == 'agg' and s0['rv'].get('ak') == 'adt' and s0['rv']['p'] == tag:
                            for nm, op in zip(s0['rv'].get('fn', []), s0['rv']['ops']):
                                if op['o'] == 'const' and str(op.get('v', '')).replace('const ', '').startswith('0_usize'):
                                    zero.add(nm)
            cnt = [f for f in usizes if f in written or f in zero]
            bnd = [f for f in usizes if f not in cnt]
            if len(cnt) != 1 or len(bnd) != 1:
                raise Incomplete('cannot tell counter from bound among the usize fields %s of %s' % (usizes, tag))
            kw.update(counter=cnt[0], bound=bnd[0])
        elif kind == 'skip_last':
            if len(usizes) != 1:
                raise Incomplete('expected one usize field in %s' % tag)
            kw.update(counter=usizes[0], bound_const=0, init_lo=0)
        elif kind == 'take_while':
            if len(bools) != 1:
                raise Incomplete('expected one bool field in %s' % tag)
            kw.update(flag_fields=(bools[0],))
        elif kind == 'skip_while':
            if len(bools) != 1:
                raise Incomplete('expected one bool field in %s' % tag)
            kw.update(flag_fields=(bools[0],))
        sums, pred = summaries(g, **kw)
        bad = None
        for sm, key in sums:
            if kind in ('take_while', 'skip_while') and bools:
                # present the (only) flag under a fixed name to the spec
                nm = 'inclusive' if kind == 'take_while' else 'done'
                sm['flags'] = {nm: sm['flags'].get(bools[0])} if bools[0] in sm['flags'] else {}
                sm['sets'] = {nm: sm['sets'].get(bools[0])} if bools[0] in sm['sets'] else {}
            why = spec(sm)
            if why:
                bad = (why, key, sm)
                break
        if not sums:
            bad = ('next() has no returning path', None, None)
        if bad:
            why, key, sm = bad
            res.append(Finding(ID, 'S8', label, False, '%s does not follow its definition: %s' % (kind, why), fn['span'],
                               witness(g, pred, key, interesting_default) if key else []))
        else:
            res.append(Finding(ID, 'S8', label, True, '%d path classes of next() agree with the definition of %s' % (len(sums), kind), fn['span']))
    if not cx.control:
        for t in S8_TABLE:
            if t not in seen:
                res.append(Finding(ID, 'S8', 'table:' + t, False, 'operator not found (fail closed)'))
    return res


# ---- S9: operators that remember the previous item: the memory is replaced by the incoming item exactly when it is forwarded
MEMORY = ['ops::distinct::DistinctUntilChangedObserver', 'ops::distinct::DistinctUntilKeyChangedObserver']


def s9(cx):
    from ..core import TAKE, recv_class
    from ..expr import access_path, strip
    F = cx.facts
    res = []
    seen = set()
    for im in cx.observer_impls():
        tag = roles.impl_tag(cx, im)
        if tag not in MEMORY and not (cx.control and tag == 'verif_controls::ForgetfulDistinct'):
            continue
        seen.add(tag)
        mem = roles.field_where(cx, tag, lambda t, ti: roles.is_option_of(F, t, lambda x: x['k'] == 'param'), 'remembered item')
        fn = cx.method(im, 'next')
        g = cx.graph(fn['key'])
        label = cx.label(fn)

        def is_mem(e):
            root, steps = access_path(e)
            return root[0] == 'arg' and root[1] == 1 and bool(steps) and steps[0] == mem

        def _none(e):
            e = strip(e)
            return e[0] == 'agg' and e[2].endswith('Option::None')
        emptied = [x for x in g.nodes if x['kind'] == 'call' and x['args'] and is_mem(x['args'][0]) and
                   (x['name'] in ('std::option::Option::take', 'std::mem::take') or (x['name'] == 'std::mem::replace' and len(x['args']) > 1 and _none(x['args'][1])))]

        def ev(x):
            if x['kind'] == 'assign' and is_mem(x['lhs']) and access_path(x['lhs'])[1] == [mem]:
                r = strip(x['rhs'])
                if r[0] == 'agg' and r[2].endswith('Option::Some') and r[3] and mentions_item(r[3][0]):
                    return ('store',)
                return ('badstore',)
            if x['kind'] == 'call' and x['args'] and is_mem(x['args'][0]) and access_path(x['args'][0])[1] == [mem] and len(x['args']) > 1:
                # replace()/insert() write the memory just like an assignment does
                if x['name'] in ('std::option::Option::replace', 'std::option::Option::insert'):
                    return ('store',) if mentions_item(x['args'][1]) else ('badstore',)
                if x['name'] == 'std::mem::replace':
                    r = strip(x['args'][1])
                    if r[0] == 'agg' and r[2].endswith('Option::Some') and r[3] and mentions_item(r[3][0]):
                        return ('store',)
                    return ('badstore',)
            if down_method(x) == 'next':
                return ('emit',)
            return None

        def mentions_item(e):
            from ..core import mentions
            return mentions(e, lambda y: y[0] == 'arg' and y[1] == 2)
        bad = lang_check(g, '(store emit)?', ev, exact=True, empty_ok=False)
        if emptied:
            res.append(Finding(ID, 'S9', label, False,
                               'the remembered previous item is taken out of its cell: after a suppressed duplicate nothing is remembered and the next equal item is forwarded again',
                               g.loc(emptied[0]), [node_desc(g, emptied[0])]))
        elif bad:
            res.append(Finding(ID, 'S9', label, False, 'the remembered item must be replaced by the incoming item exactly when it is forwarded: ' + bad[0], fn['span'], bad[1]))
        else:
            res.append(Finding(ID, 'S9', label, True, 'memory `%s` is overwritten with the incoming item exactly on the forwarding paths and never emptied' % mem, fn['span']))
    if not cx.control:
        for t in MEMORY:
            if t not in seen:
                res.append(Finding(ID, 'S9', 'table:' + t, False, 'operator not found (fail closed)'))
    return res


# ---- S10: value-flow definitions of the stateful single-input operators, decided by provenance dataflow (prov.py)
def _s10_last(cx, im, P):
    out = []
    fn = cx.method(im, 'next')
    sums, pred = P.summaries(cx.graph(fn['key']))
    mem = None
    bad = None
    for sm, key in sums:
        if sm['events']:
            bad = 'last: next() must only remember the item, it emits or calls something'
        stored = [(k[1:], v) for k, v in sm['store'].items() if k[0] == 'S']
        hit = [k for k, v in stored if v == ('some', ('item', ()))]
        if len(hit) != 1:
            if all(P.decided(v) for k, v in stored):
                bad = bad or 'last: a path of next() does not replace the remembered item by the incoming one (the operator would keep an older item)'
        else:
            mem = hit[0]
    out.append((fn, bad, 'every path stores Some(item) into the memory'))
    fn2 = cx.method(im, 'complete')
    bad2 = None
    if mem is not None:
        sums2, _ = P.summaries(cx.graph(fn2['key']))
        for sm, key in sums2:
            ne = P.emits(sm, 'next')
            c = P.cond_of(sm, lambda t: t == ('discr', ('old', mem)))
            want = ('old', mem + ('as Some', '0'))
            if c == 1 and (len(ne) != 1 or (P.decided(ne[0][2]) and ne[0][2] != want)):
                bad2 = 'last: complete() must emit exactly the remembered item when there is one'
            if c == 0 and ne:
                bad2 = 'last: complete() emits an item although nothing was remembered'
            if any(P.decided(e[2]) and e[2] != want for e in ne):
                bad2 = 'last: complete() emits something other than the remembered item'
    out.append((fn2, bad2, 'emits the remembered item iff there is one, then completes'))
    return out


def _s10_scan(cx, im, P):
    fn = cx.method(im, 'next')
    sums, pred = P.summaries(cx.graph(fn['key']))
    bad = None
    for sm, key in sums:
        uc = sm['ucalls']
        if len(uc) != 1:
            bad = 'scan: the binary operator must be applied exactly once per item'
            continue
        callee, argv = uc[0]
        if argv[0] != 'tuple' or len(argv[1]) != 2:
            continue
        a, b = argv[1]
        if P.decided(b) and b != ('item', ()):
            bad = 'scan: the second operand of the binary operator is not the incoming item'
        if P.decided(a) and a[0] != 'old':
            bad = 'scan: the first operand of the binary operator is not the stored accumulator'
        if a[0] == 'old':
            acc = a[1]
            now = P.cur(sm, acc)
            if P.decided(now) and now != ('ucall', 0):
                bad = 'scan: the result of the binary operator is not stored back as the new accumulator'
        ne = P.emits(sm, 'next')
        if len(ne) != 1:
            bad = 'scan: exactly one value must be emitted per item'
        elif P.decided(ne[0][2]) and ne[0][2] != ('ucall', 0):
            bad = 'scan: the emitted value is not the freshly computed accumulator (%s)' % P.show(ne[0][2])
        ev = [e[0] for e in sm['events']]
        if ev[:1] != ['ucall']:
            bad = bad or 'scan: a value is emitted before the accumulator is updated'
    return [(fn, bad, 'acc := f(acc, item); emits the new acc')]


def _s10_default_if_empty(cx, im, P, tag):
    F = cx.facts
    bools = [f for f, t in roles.adt_fields(cx, tag) if F.tystr(t) == 'bool']
    if len(bools) != 1:
        from ..core import Incomplete
        raise Incomplete('expected one bool field in %s' % tag)
    B = (bools[0],)
    out = []
    fn = cx.method(im, 'next')
    sums, _ = P.summaries(cx.graph(fn['key']))
    bad = None
    for sm, key in sums:
        ne = P.emits(sm, 'next')
        if len(ne) != 1 or (P.decided(ne[0][2]) and ne[0][2] != ('item', ())):
            bad = 'default_if_empty: next() must forward exactly the incoming item'
        now = P.cur(sm, B)
        c = P.cond_of(sm, lambda t: t == ('old', B))
        if not (now == ('const', 'false') or (now == ('old', B) and c == 0)) and P.decided(now):
            bad = 'default_if_empty: a path of next() leaves the "still empty" flag set although an item was seen (the default would be emitted after real items)'
    out.append((fn, bad, 'forwards the item and clears the empty flag'))
    fn2 = cx.method(im, 'complete')
    sums2, _ = P.summaries(cx.graph(fn2['key']))
    bad2 = None
    for sm, key in sums2:
        ne = P.emits(sm, 'next')
        c = P.cond_of(sm, lambda t: t == ('old', B))
        if c is None:
            bad2 = 'default_if_empty: complete() does not consult the "still empty" flag'
        elif c == 1 and (len(ne) != 1 or (P.decided(ne[0][2]) and (ne[0][2][0] != 'old' or ne[0][2][1] == B))):
            bad2 = 'default_if_empty: an empty stream must end with exactly the default value'
        elif c == 0 and ne:
            bad2 = 'default_if_empty: the default is emitted although items were seen'
    out.append((fn2, bad2, 'emits the default iff no item was seen'))
    return out


def _s10_pairwise(cx, im, P):
    fn = cx.method(im, 'next')
    sums, _ = P.summaries(cx.graph(fn['key']))
    bad = None
    for sm, key in sums:
        ne = P.emits(sm, 'next')
        if len(ne) > 1:
            bad = 'pairwise: more than one pair per item'
        stored = [v for k, v in sm['store'].items() if k[0] == 'S']
        if stored and all(P.decided(v) for v in stored) and not any(P.has_item(v) for v in stored):
            bad = 'pairwise: a path of next() does not remember the incoming item as the next "previous"'
        if ne:
            v = ne[0][2]
            if v[0] == 'tuple' and len(v[1]) == 2:
                a, b = v[1]
                if P.decided(b) and b != ('item', ()):
                    bad = 'pairwise: the second component of the pair is not the incoming item'
                if P.decided(a) and (a[0] != 'old' or P.has_item(a)):
                    bad = 'pairwise: the first component of the pair is not the previously remembered item'
                if a[0] == 'old' and 'as Some' in a[1]:
                    prefix = a[1][:a[1].index('as Some')]
                    now = P.cur(sm, prefix)
                    if P.decided(now) and now != ('some', ('item', ())):
                        bad = 'pairwise: the slot the "previous" item is read from is not refilled with the incoming item'
                    c = P.cond_of(sm, lambda t: t == ('discr', ('old', prefix)))
                    if c == 0:
                        bad = 'pairwise: a pair is emitted although there is no previous item'
        else:
            c = [val for term, val in sm['conds'] if term[0] == 'discr' and term[1][0] == 'old']
            if c and all(x == 1 for x in c):
                bad = 'pairwise: no pair is emitted although a previous item exists'
    return [(fn, bad, 'emits (previous, item) iff a previous item exists; remembers the item')]


def _s10_collect(cx, im, P):
    out = []
    fn = cx.method(im, 'next')
    sums, _ = P.summaries(cx.graph(fn['key']))
    bad = None
    coll = None
    for sm, key in sums:
        if P.emits(sm):
            bad = 'collect: next() emits'
        added = [(k[1:], v) for k, v in sm['store'].items() if k[0] == 'S' and v[0] == 'added']
        if len(added) == 1 and added[0][1][1] == ('old', added[0][0]) and P.has_item(added[0][1][2]):
            coll = added[0][0]
        elif all(P.decided(v) for k, v in sm['store'].items() if k[0] == 'S'):
            bad = 'collect: a path of next() does not add the incoming item to the collection'
    out.append((fn, bad, 'adds the item to the collection'))
    fn2 = cx.method(im, 'complete')
    bad2 = None
    if coll is not None:
        sums2, _ = P.summaries(cx.graph(fn2['key']))
        for sm, key in sums2:
            ne = P.emits(sm, 'next')
            if len(ne) != 1 or (P.decided(ne[0][2]) and ne[0][2] != ('old', coll)):
                bad2 = 'collect: complete() must emit exactly the gathered collection'
    out.append((fn2, bad2, 'emits the collection, then completes'))
    return out


def _s10_apply(kind):
    """map / tap / filter_map / on_error_map: the user function is applied exactly once to the incoming value"""
    def spec(cx, im, P):
        meth = 'error' if kind == 'on_error_map' else 'next'
        fn = cx.method(im, meth)
        sums, _ = P.summaries(cx.graph(fn['key']))
        bad = None
        for sm, key in sums:
            uc = sm['ucalls']
            if len(uc) != 1:
                bad = '%s: the user function must be applied exactly once per notification' % kind
                continue
            argv = uc[0][1]
            if argv[0] == 'tuple' and len(argv[1]) == 1 and P.decided(argv[1][0]) and argv[1][0] != ('item', ()):
                bad = '%s: the user function is not applied to the incoming value' % kind
            ne = P.emits(sm, meth)
            ev = [e[0] for e in sm['events']]
            if kind in ('map', 'on_error_map'):
                if len(ne) != 1 or (P.decided(ne[0][2]) and ne[0][2] != ('ucall', 0)):
                    bad = '%s: the result of the user function must be forwarded, exactly once' % kind
            elif kind == 'tap':
                if len(ne) != 1 or (P.decided(ne[0][2]) and ne[0][2] != ('item', ())) or ev[:1] != ['ucall']:
                    bad = 'tap: the callback must see the item first, then the unchanged item is forwarded exactly once'
            elif kind == 'filter_map':
                c = P.cond_of(sm, lambda t: t == ('discr', ('ucall', 0)))
                if c == 1 and (len(ne) != 1 or (P.decided(ne[0][2]) and not P.mentions_v(ne[0][2], lambda x: x == ('ucall', 0)))):
                    bad = 'filter_map: Some(v) must forward v'
                if c == 0 and ne:
                    bad = 'filter_map: None must forward nothing'
                if c is None and ne:
                    bad = 'filter_map: an item is forwarded without looking at the result of the user function'
        return [(fn, bad, 'user function applied once to the incoming value; result handled as defined')]
    return spec


def _s10_contains(cx, im, P):
    out = []
    fn = cx.method(im, 'next')
    sums, _ = P.summaries(cx.graph(fn['key']))
    bad = None
    is_cmp = lambda t: t[0] == 'cmp' and t[1] in ('Eq', 'Ne') and {t[2][0], t[3][0]} == {'old', 'item'}
    for sm, key in sums:
        c = None
        for term, val in sm['conds']:
            if is_cmp(term):
                c = val if term[1] == 'Eq' else 1 - val
        ne = P.emits(sm, 'next')
        if c is None and sm['events']:
            bad = 'contains: an answer is given without comparing the item with the target'
        if c == 0 and sm['events']:
            bad = 'contains: answers although the item differs from the target'
        if c == 1:
            slot_empty = any(term[0] == 'discr' and val == 0 for term, val in sm['conds'])
            if not slot_empty and (len(ne) != 1 or ne[0][2] != ('const', 'true') or not P.emits(sm, 'complete')):
                bad = 'contains: a matching item must be answered with `true` and completion'
    out.append((fn, bad, 'answers true + complete exactly for an item equal to the target'))
    fn2 = cx.method(im, 'complete')
    sums2, _ = P.summaries(cx.graph(fn2['key']))
    bad2 = None
    for sm, key in sums2:
        ne = P.emits(sm, 'next')
        if ne and (len(ne) != 1 or ne[0][2] != ('const', 'false')):
            bad2 = 'contains: a stream that ends without a match must be answered with `false`'
    out.append((fn2, bad2, 'answers false when the stream ends without a match'))
    return out


def _s10_distinct(cx, im, P):
    fn = cx.method(im, 'next')
    sums, _ = P.summaries(cx.graph(fn['key']))
    bad = None
    for sm, key in sums:
        ne = P.emits(sm, 'next')
        key_ok = lambda k: k == ('item', ()) or (k[0] == 'ucall' and sm['ucalls'] and sm['ucalls'][k[1]][1] == ('tuple', (('item', ()),)))
        member = None      # 1: already seen, 0: new
        the_set = None
        for term, val in sm['conds']:
            if term[0] == 'contains' and term[1][0] == 'old' and key_ok(term[2]):
                member, the_set, k = val, term[1][1], term[2]
            elif term[0] == 'inserted' and term[1][0] == 'old' and key_ok(term[2]):
                member, the_set, k = 1 - val, term[1][1], term[2]
        if member is None:
            if sm['events'] and any(e[0] == 'emit' for e in sm['events']):
                bad = 'distinct: an item is forwarded without a membership test of its key in the seen-set'
            continue
        if member == 1 and ne:
            bad = 'distinct: an item whose key was already seen is forwarded'
        if member == 0:
            if len(ne) != 1 or (P.decided(ne[0][2]) and ne[0][2] != ('item', ())):
                bad = 'distinct: a new item must be forwarded exactly once, unchanged'
            now = P.cur(sm, the_set)
            if P.decided(now) and not (now[0] == 'added' and now[1] == ('old', the_set) and (now[2] == k or key_ok(now[2]))):
                bad = 'distinct: the key of a forwarded item is not added to the seen-set (a later duplicate would pass)'
    return [(fn, bad, 'forwards an item iff its key is new, and then records the key')]


def _s10_buffer_count(cx, im, P):
    fn = cx.method(im, 'next')
    sums, _ = P.summaries(cx.graph(fn['key']))
    bad = None
    for sm, key in sums:
        ne = P.emits(sm, 'next')
        full = None
        for term, val in sm['conds']:
            if term[0] == 'op' and term[1] in ('Ge', 'Eq', 'Lt', 'Ne', 'Gt') and term[2][0] == 'pure' and term[2][1] == 'len' and len(term[2]) > 2 and term[2][2][0] == 'added' and P.has_item(term[2][2][2]) and term[3][0] == 'old':
                full = val if term[1] in ('Ge', 'Eq') else (1 - val if term[1] in ('Lt', 'Ne') else None)
                buf = term[2][2][1][1] if term[2][2][1][0] == 'old' else None
        if full is None:
            if ne:
                bad = 'buffer_with_count: a buffer is released without comparing its length (after adding the item) with count'
            continue
        if full == 1 and len(ne) != 1:
            bad = 'buffer_with_count: a full buffer must be released exactly once'
        if full == 1 and ne and P.decided(ne[0][2]) and not (ne[0][2][0] == 'added' and P.has_item(ne[0][2][2])):
            bad = 'buffer_with_count: the released buffer does not contain the item that filled it'
        if full == 0 and ne:
            bad = 'buffer_with_count: a buffer is released before it holds count items'
        if buf is not None:
            now = P.cur(sm, buf)
            if full == 1 and P.decided(now) and now[0] == 'added':
                bad = 'buffer_with_count: the released items stay in the buffer (they would be emitted again)'
            if full == 0 and P.decided(now) and not (now[0] == 'added' and P.has_item(now[2])):
                bad = 'buffer_with_count: the item is not kept in the buffer'
    return [(fn, bad, 'adds the item; releases and empties the buffer exactly when it holds count items')]


S10_TABLE = {
    'ops::last::LastObserver': _s10_last,
    'ops::scan::ScanObserver': _s10_scan,
    'ops::default_if_empty::DefaultIfEmptyObserver': 'default_if_empty',
    'ops::pairwise::PairwiseObserver': _s10_pairwise,
    'ops::collect::CollectObserver': _s10_collect,
    'ops::map::MapObserver': _s10_apply('map'),
    'ops::tap::TapObserver': _s10_apply('tap'),
    'ops::filter_map::FilterMapObserver': _s10_apply('filter_map'),
    'ops::on_error_map::OnErrorMapObserver': _s10_apply('on_error_map'),
    'ops::contains::ContainsObserver': _s10_contains,
    'ops::distinct::DistinctObserver': _s10_distinct,
    'ops::distinct::DistinctKeyObserver': _s10_distinct,
    'ops::buffer::BufferWithCountObserver': _s10_buffer_count,
}
S10_CONTROL = {
    'verif_controls::FirstKeeper': _s10_last,
    'verif_controls::StaleScan': _s10_scan,
    'verif_controls::SwappedPairs': _s10_pairwise,
}


def s10(cx):
    from .. import prov as P
    res = []
    seen = set()
    table = S10_CONTROL if cx.control else S10_TABLE
    for im in cx.observer_impls():
        tag = roles.impl_tag(cx, im)
        spec = table.get(tag)
        if spec is None:
            continue
        seen.add(tag)
        rows = _s10_default_if_empty(cx, im, P, tag) if spec == 'default_if_empty' else spec(cx, im, P)
        for fn, bad, good in rows:
            res.append(Finding(ID, 'S10', cx.label(fn), not bad, bad or good, fn['span']))
    if not cx.control:
        for t in S10_TABLE:
            if t not in seen:
                res.append(Finding(ID, 'S10', 'table:' + t, False, 'operator not found (fail closed)'))
    return res


# ---- S11: the derived operators are the compositions their documentation states (operator trees of the builders)
SELF = ('SELF',)
TRUE = ('C', 'true')
FALSE = ('C', 'false')
NONE = ('NONE',)
DFLT = ('DEFAULT',)
ANY = ('ANY',)
MAXC = ('MAX',)


def A(n):
    return ('ARG', n)


def C(v):
    return ('C', str(v))


def OP(name, *parts):
    return ('OP', name, parts)


def FN(kind):
    return ('FN', kind)


def TUP(*parts):
    return ('TUP', parts)


_REDUCE = lambda f, init: OP('default_if_empty', OP('last', OP('scan', SELF, f, init), NONE), TRUE, init)
DERIVED = {
    'first': OP('take', SELF, C(1)),
    'first_or': OP('default_if_empty', OP('take', SELF, C(1)), TRUE, A(2)),
    'last': OP('last', SELF, NONE),
    'last_or': OP('default_if_empty', OP('last', SELF, NONE), TRUE, A(2)),
    'element_at': OP('take', OP('skip', SELF, A(2)), C(1)),
    'ignore_elements': OP('filter', SELF, FN('always_false')),
    'all': OP('default_if_empty', OP('take', OP('filter', OP('map', SELF, A(2)), FN('not')), C(1)), TRUE, TRUE),
    'contains': OP('contains', SELF, A(2)),
    'scan_initial': OP('scan', SELF, A(3), A(2)),
    'scan': OP('scan', SELF, A(2), DFLT),
    'reduce_initial': _REDUCE(A(3), A(2)),
    'reduce': _REDUCE(A(2), DFLT),
    'count': _REDUCE(FN('count'), DFLT),
    'sum': _REDUCE(FN('sum'), DFLT),
    'max': OP('map', OP('last', OP('scan', SELF, FN('max'), NONE), NONE), FN('unwrap')),
    'min': OP('map', OP('last', OP('scan', SELF, FN('min'), NONE), NONE), FN('unwrap')),
    'average': OP('map', OP('last', OP('scan', SELF, FN('accumulate'), TUP(DFLT, C(0))), NONE), FN('average')),
    'default_if_empty': OP('default_if_empty', SELF, TRUE, A(2)),
    'take': OP('take', SELF, A(2)),
    'skip': OP('skip', SELF, A(2)),
    'take_last': OP('take_last', SELF, A(2)),
    'skip_last': OP('skip_last', SELF, A(2)),
    'take_while': OP('take_while', SELF, A(2), FALSE),
    'take_while_inclusive': OP('take_while', SELF, A(2), TRUE),
    'skip_while': OP('skip_while', SELF, A(2)),
    'filter': OP('filter', SELF, A(2)),
    'filter_map': OP('filter_map', SELF, A(2)),
    'map': OP('map', SELF, A(2)),
    'map_to': OP('map_to', SELF, A(2)),
    'tap': OP('tap', SELF, A(2)),
    'on_error_map': OP('on_error_map', SELF, A(2)),
    'buffer_with_count': OP('buffer_with_count', SELF, A(2)),
    'distinct': OP('distinct', SELF),
    'distinct_key': OP('distinct_key', SELF, A(2)),
    'distinct_until_changed': OP('distinct_until_changed', SELF),
    'distinct_until_key_changed': OP('distinct_until_key_changed', SELF, A(2)),
    'pairwise': OP('pairwise', SELF),
    'start_with': OP('start_with', SELF, A(2)),
}


def _dec11(P, v):
    """decided for builder trees: arguments and calls are legitimate leaves, only unresolved terms are not"""
    return not P.mentions_v(v, lambda x: isinstance(x, tuple) and x and x[0] in ('unk', 'mix', 'bot'))


def _op_name(adt_variant):
    import re as _re
    last = adt_variant.split('::')[-1]
    base = _re.sub(r'Op(Threads?)?$', '', last)
    base = _re.sub(r'OP$', '', base)
    return _re.sub(r'(?<!^)(?=[A-Z])', '_', base).lower()


def _is_marker(F, t):
    st = F.tystr(t)
    return st.startswith(('observable::TypeHint', 'type_hint::TypeHint', 'std::marker::PhantomData')) or 'TypeHint<' in st.split('<')[0] + '<' and st.split('<')[0].endswith('TypeHint')


def _fn_summaries(cx, P, v):
    F = cx.facts
    key = v[1]
    if key not in F.fns:
        return None, 0
    fn = F.fns[key]
    g = cx.graph(key, defaults=True)
    sums, _ = P.summaries(g, item_arg=0, self_arg=0, maxd=40)
    first = 2 if v[0] == 'closure' else 1
    return [(sm['store'].get(('L', 0), ('unk',)), sm['conds']) for sm, k in sums], first


def _fn_ok(cx, P, kind, v):
    """None = agrees, str = definite disagreement, '' = undecided"""
    if v[0] not in ('closure', 'fnitem'):
        return '' if not _dec11(P, v) else 'a function item or closure was expected here, found %s' % P.show(v)
    rets, a = _fn_summaries(cx, P, v)
    if rets is None:
        return ''
    acc, val = ('arg', a), ('arg', a + 1)
    accp = ('proj', ('variant', acc, 'Some'), '0')
    strip_lit = lambda c: c[1].split('_')[0] if c[0] == 'const' else None
    for ret, conds in rets:
        if not _dec11(P, ret) and kind not in ('unwrap',):
            return ''
        if kind == 'always_false' and ret != ('const', 'false'):
            return 'the filter of ignore_elements must reject every item'
        if kind == 'not' and ret != ('op', 'Not', ('arg', a)):
            return 'all() must look for an item whose predicate value is false'
        if kind == 'count' and not (ret[0] == 'op' and ret[1] == 'Add' and {ret[2], ret[3]} >= {acc} and '1' in (strip_lit(ret[2]), strip_lit(ret[3]))):
            return 'count must add exactly one per item'
        if kind == 'sum' and not (ret[0] == 'op' and ret[1] == 'Add' and {ret[2], ret[3]} == {acc, val}):
            return 'sum must add the item to the accumulator'
        if kind in ('max', 'min'):
            rel = None
            for term, tv in conds:
                if term[0] in ('cmp', 'op') and len(term) == 4 and term[1] in ('Gt', 'Lt', 'Ge', 'Le') and {term[2], term[3]} == {accp, val} and tv in (0, 1):
                    op = term[1]
                    if term[2] == val:
                        op = {'Gt': 'Lt', 'Lt': 'Gt', 'Ge': 'Le', 'Le': 'Ge'}.get(op, op)
                    if tv == 0:
                        op = {'Gt': 'Le', 'Le': 'Gt', 'Lt': 'Ge', 'Ge': 'Lt'}.get(op, op)
                    rel = op          # relation acc <rel> item that holds on this path
            want_keep = ('Gt', 'Ge') if kind == 'max' else ('Lt', 'Le')
            want_take = ('Le', 'Lt') if kind == 'max' else ('Ge', 'Gt')
            if ret == ('some', accp):
                if rel is None:
                    return '%s keeps the old extreme without comparing it with the item' % kind
                if rel not in want_keep:
                    return '%s keeps the old value although it is %s the new item' % (kind, 'smaller than' if kind == 'max' else 'greater than')
            elif ret == ('some', val):
                if rel is not None and rel not in want_take:
                    return '%s replaces the old value although it is the %s one' % (kind, 'greater' if kind == 'max' else 'smaller')
            else:
                return ''
        if kind == 'accumulate':
            want = ('tuple', (('op', 'Add', ('proj', ('arg', a), '0'), ('arg', a + 1)), ('op', 'Add', ('proj', ('arg', a), '1'), ('const', '1_usize'))))
            if ret[0] == 'tuple' and len(ret[1]) == 2:
                s0, s1 = ret[1]
                ok0 = s0[0] == 'op' and s0[1] == 'Add' and {s0[2], s0[3]} == {('proj', ('arg', a), '0'), ('arg', a + 1)}
                ok1 = s1[0] == 'op' and s1[1] == 'Add' and ('proj', ('arg', a), '1') in (s1[2], s1[3]) and '1' in (strip_lit(s1[2]), strip_lit(s1[3]))
                if not (ok0 and ok1):
                    return 'average must accumulate (sum + item, count + 1)'
            else:
                return ''
        if kind == 'average':
            num, den = ('proj', ('arg', a), '0'), ('proj', ('arg', a), '1')
            ok = ret == ('op', 'Div', num, den) or (ret[0] == 'op' and ret[1] == 'Mul' and num in (ret[2], ret[3]) and any(
                x[0] == 'op' and x[1] == 'Div' and strip_lit(x[2]) in ('1f64', '1', '1.0f64', '1.0') and x[3] == den for x in (ret[2], ret[3])))
            if not ok:
                return 'average must divide the accumulated sum by the accumulated count'
    return None


def _match(cx, P, pat, v, notes):
    """None when v agrees with pat, a message when it definitely does not; undecided parts are recorded in notes"""
    F = cx.facts
    k = pat[0]
    if k == 'ANY':
        return None
    if not _dec11(P, v) and k not in ('OP', 'FN', 'TUP'):
        notes.append('undecided operand %s' % P.show(v))
        return None
    if k == 'SELF':
        return None if v == ('old', ()) else 'the source of the composition is %s, not the receiver' % P.show(v)
    if k == 'ARG':
        return None if v == ('arg', pat[1]) else 'expected argument #%d here, found %s' % (pat[1] - 1, P.show(v))
    if k == 'C':
        if v[0] == 'const':
            lit = v[1].split('_')[0]
            return None if lit == pat[1] else 'expected the constant %s, found %s' % (pat[1], v[1])
        return 'expected the constant %s, found %s' % (pat[1], P.show(v))
    if k == 'NONE':
        return None if v == ('none',) else 'expected None, found %s' % P.show(v)
    if k == 'MAX':
        ok = v[0] == 'const' and (v[1].endswith('::MAX') or v[1].split('_')[0] == '18446744073709551615')
        return None if ok else 'expected usize::MAX (no limit), found %s' % P.show(v)
    if k == 'DEFAULT':
        if v[0] == 'call' and v[1].endswith('Default::default'):
            return None
        notes.append('undecided default %s' % P.show(v)) if not _dec11(P, v) else None
        return None if not _dec11(P, v) else 'expected Default::default(), found %s' % P.show(v)
    if k == 'FN':
        r = _fn_ok(cx, P, pat[1], v)
        if r == '':
            notes.append('undecided function operand')
            return None
        return r
    if k == 'TUP':
        if v[0] != 'tuple' or len(v[1]) != len(pat[1]):
            return None if not _dec11(P, v) else 'expected a %d-tuple, found %s' % (len(pat[1]), P.show(v))
        for pp, vv in zip(pat[1], v[1]):
            r = _match(cx, P, pp, vv, notes)
            if r:
                return r
        return None
    if k == 'OP':
        if v[0] != 'adt':
            if not _dec11(P, v):
                notes.append('undecided sub-tree')
                return None
            return 'expected the %s operator here, found %s' % (pat[1], P.show(v))
        name = _op_name(v[1])
        if name != pat[1]:
            return 'expected the %s operator here, found %s' % (pat[1], name)
        adt_path = v[1].rsplit('::', 1)[0]
        ftys = dict(roles.adt_fields(cx, adt_path))
        ops = [o for o, fname in zip(v[2], v[3] if len(v) > 3 and v[3] else [None] * len(v[2]))
               if not (fname in ftys and _is_marker(F, ftys[fname]))]
        pats = list(pat[2])
        if len(ops) != len(pats):
            return 'the %s operator is built with %d operands, its definition has %d' % (name, len(ops), len(pats))
        import itertools
        last = None
        first_msg = None
        for perm in itertools.permutations(range(len(ops))):
            nn = []
            bad = None
            for pi, oi in enumerate(perm):
                bad = _match(cx, P, pats[pi], ops[oi], nn)
                if bad:
                    break
            if not bad:
                notes.extend(nn)
                return None
            last = bad
            first_msg = first_msg or bad
        return first_msg or last
    return None


def check_builder_trees(cx, prop, rule, table, what='is not the composition its documentation states'):
    """table: builder path -> (short name, pattern)"""
    from .. import prov as P
    F = cx.facts
    res = []
    by = {fn['path']: fn for fn in F.fns.values() if fn['kind'] not in ('closure', 'coroutine')}
    for path, (short, pat) in sorted(table.items()):
        fn = by.get(path)
        if fn is None:
            res.append(Finding(prop, rule, 'table:' + path, False, 'builder not found (fail closed)'))
            continue
        g = cx.graph(fn['key'], defaults=True)
        sums, _ = P.summaries(g, item_arg=0, maxd=40)
        bad = None
        notes = []
        if not sums:
            bad = 'no returning path'
        for sm, key in sums:
            v = sm['store'].get(('L', 0), ('unk',))
            bad = bad or _match(cx, P, pat, v, notes)
        if bad:
            res.append(Finding(prop, rule, path, False, '%s %s: %s' % (short or path, what, bad), fn['span']))
        else:
            res.append(Finding(prop, rule, path, True, 'operator tree agrees with the definition' + ((' (%d part(s) undecided)' % len(notes)) if notes else ''), fn['span']))
    return res


def s11(cx):
    from .. import prov as P
    F = cx.facts
    res = []
    by = {fn['path']: fn for fn in F.fns.values() if fn['kind'] not in ('closure', 'coroutine')}
    if cx.control:
        table = {'verif_controls::ctl_second': ('', OP('take', OP('skip', SELF, C(1)), C(1))),
                 'verif_controls::ctl_smallest': ('', OP('map', OP('last', OP('scan', SELF, FN('min'), NONE), NONE), ANY))}
    else:
        table = {'observable::ObservableExt::' + k: (k, v) for k, v in DERIVED.items()}
    for path, (short, pat) in sorted(table.items()):
        fn = by.get(path)
        if fn is None:
            res.append(Finding(ID, 'S11', 'table:' + path, False, 'builder not found (fail closed)'))
            continue
        g = cx.graph(fn['key'], defaults=True)
        sums, _ = P.summaries(g, item_arg=0, maxd=40)
        label = path
        bad = None
        notes = []
        if not sums:
            bad = 'no returning path'
        for sm, key in sums:
            v = sm['store'].get(('L', 0), ('unk',))
            bad = bad or _match(cx, P, pat, v, notes)
        if bad:
            res.append(Finding(ID, 'S11', label, False, '%s is not the composition its documentation states: %s' % (short or path, bad), fn['span']))
        else:
            res.append(Finding(ID, 'S11', label, True, 'operator tree agrees with the definition' + ((' (%d part(s) undecided)' % len(notes)) if notes else ''), fn['span']))
    return res


# ---- S12: a terminal is never dropped silently
S12_NOOP = {
    '<ops::skip_until::SkipUntilNotifierObserver as Observer>::error': 'skip_until ignores the notifier\'s own terminal by definition (C04.M3)',
    '<ops::skip_until::SkipUntilNotifierObserver as Observer>::complete': 'same',
    '<ops::take_until::TakeUntilNotifierObserver as Observer>::error': 'take_until ignores the notifier\'s own terminal by definition (C04.M3)',
    '<ops::take_until::TakeUntilNotifierObserver as Observer>::complete': 'same',
    '<ops::with_latest_from::BObserver as Observer>::complete': 'the secondary input of with_latest_from only feeds values; its completion is not mirrored',
    '<observable::subscribe_item::ObserverItem as Observer>::error': 'subscribe(|item| ..) has no error callback',
    '<observable::subscribe_item::ObserverItem as Observer>::complete': 'subscribe(|item| ..) has no completion callback',
}
_S12_PURE = ('clone', 'deref', 'deref_mut', 'as_ref', 'as_mut', 'borrow', 'borrow_mut', 'is_none', 'is_some', 'is_empty', 'len', 'is_finished', 'is_closed',
             'rc_deref', 'rc_deref_mut', 'eq', 'ne', 'drop', 'project', 'new_unchecked', 'get_mut', 'as_deref_mut', 'as_deref', 'into', 'from', 'teardown_size')


_S12_MUT = ('push', 'push_back', 'push_front', 'insert', 'extend', 'append', 'clear', 'drain', 'retain', 'remove', 'pop', 'pop_front', 'pop_back', 'swap',
            'replace', 'store', 'wake', 'wake_by_ref', 'unbounded_send', 'start_send', 'send', 'try_send', 'close_channel', 'close', 'set', 'truncate')


def silent_paths(cx, fn):
    """return states of paths through fn that do nothing at all (no effectful call, no write through an argument) and have not
    branched on 'the slot / the state of self says there is nothing to do'"""
    from ..core import explore, ret_states, sw_value, UNSUB_NAMES, SCHEDULE, TAKE
    from ..expr import access_path, strip
    _S12_ACT = set(UNSUB_NAMES) | {SUBSCRIBE, SCHEDULE}
    g = cx.graph(fn['key'])

    def step(st, x, lab):
        effect, just = st
        d, v = sw_value(lab)
        if d is not None:
            dd = strip(d)
            if dd[0] == 'discr' and v == 0:
                root, steps = access_path(dd[1])
                if root[0] == 'arg' and root[1] == 1:
                    just = True
            if dd[0] == 'call' and dd[1].rsplit('::', 1)[-1] in ('is_none',) and v == 1:
                just = True
            if dd[0] == 'call' and dd[1].rsplit('::', 1)[-1] in ('is_some',) and v == 0:
                just = True
            if dd[0] == 'field':
                root, steps = access_path(dd)
                if root[0] == 'arg' and root[1] == 1:
                    just = True       # a mode / state flag of the object decides (e.g. "the other input already completed")
        if x['kind'] == 'call':
            # (an inlined local callee is judged by what happens inside it)
            name = x['name']
            tail = name.rsplit('::', 1)[-1]
            if down_method(x) in ('next', 'error', 'complete') or name in _S12_ACT or name in FN_CALLS or name == '<fnptr>' or name in TAKE:
                effect = True
            elif tail in _S12_MUT or tail.startswith('fetch_'):
                effect = True
            elif not name.startswith(('std::', 'core::', 'alloc::', 'rc::', 'smallvec::')) and tail not in _S12_PURE:
                effect = True      # a call into another crate / an unresolved trait method: assume it acts
        if x['kind'] == 'assign' and x['lhs'][0] != 'local' and x['lhs'][0] != 'discr':
            root, steps = access_path(x['lhs'])
            if root[0] == 'arg':
                effect = True
        return (effect, just)
    reached, pred = explore(g, (False, False), step)
    bad = [k for k in ret_states(g, reached) if not k[1][0] and not k[1][1]]
    return bad, g, pred


def s12(cx):
    from ..core import witness, interesting_default
    F = cx.facts
    res = []
    n = 0
    for im in cx.observer_impls():
        tag = roles.impl_tag(cx, im)
        if cx.control != ('verif_controls' in tag):
            continue
        for meth in ('error', 'complete'):
            fn = cx.method(im, meth)
            if fn is None:
                continue
            label = cx.label(fn)
            sl = roles.stable_label(cx, fn)
            if sl in S12_NOOP:
                continue
            n += 1
            bad, g, pred = silent_paths(cx, fn)
            res.append(Finding(ID, 'S12', label, not bad,
                               '%s() has a path that does nothing at all although it has not found its slot empty: the terminal is swallowed there (downstream never terminates / cleanup never runs)' % meth
                               if bad else 'every path of %s() acts on the terminal or has found the slot empty' % meth,
                               fn['span'], witness(g, pred, bad[0], interesting_default) if bad else None))
    if not cx.control and n < 120:
        res.append(Finding(ID, 'S12', 'floor', False, 'only %d terminal methods analysed, expected >= 120' % n))
    return res


def query_findings(cx, fns, prop, rule, what):
    """read-only contract of query methods (&self): no exclusive guard, no effect. A query that takes the write guard panics
    (RefCell) or dead-locks (Mutex) when it is asked from inside a callback that runs under a read guard; a query with an effect
    changes what it reports on"""
    from ..core import guard_of, UNSUB_NAMES, SCHEDULE, TAKE
    res = []
    act = set(UNSUB_NAMES) | {SUBSCRIBE, SCHEDULE}
    for fn in fns:
        g = cx.graph(fn['key'])
        bad = None
        for x in g.nodes:
            gd = guard_of(x)
            if gd and gd[2] == 'W':
                bad = (x, 'takes an exclusive (write) guard')
                break
            if x['kind'] == 'call':
                tail = x['name'].rsplit('::', 1)[-1]
                if down_method(x) in ('next', 'error', 'complete') or x['name'] in act or x['name'] in TAKE or tail in _S12_MUT or tail.startswith('fetch_'):
                    bad = (x, 'has an effect (%s)' % tail)
                    break
            if x['kind'] == 'assign' and x['lhs'][0] not in ('local', 'discr'):
                from ..expr import access_path
                root, steps = access_path(x['lhs'])
                if root[0] == 'arg':
                    bad = (x, 'writes through self')
                    break
        res.append(Finding(prop, rule, cx.label(fn), bad is None,
                           ('%s %s: asked from inside a callback that already reads the same cell it panics (RefCell) or blocks (Mutex), and it is not a pure observation any more' % (what, bad[1])) if bad else
                           '%s is a pure read (shared guards only, no effect)' % what, g.loc(bad[0]) if bad else fn['span']))
    return res


# ---- S14: a shared slot is never vacated for the duration of a call (take the content out, use it, store it back)
def _cell_prefix(e):
    """(root, steps up to and including the first cell dereference '@') of an access path, or None"""
    root, steps = access_path(e)
    if '@' not in steps:
        return None
    i = steps.index('@')
    return (strip(root), tuple(st for st in steps[:i + 1] if st != '!take'))


def s14(cx):
    """an empty shared slot (MutRc|MutArc<Option<..>>) means 'terminated' to everybody who looks at it: is_finished() answers true,
    next/error/complete on it are no-ops, hot sources skip and prune it. No function therefore takes the content of such a slot out
    and stores the same value back later ("so that the cell is not locked during the call"): whatever happens in between — an item
    of another input or thread, the terminal of the source, a retain() — is lost, and the write-back revives a stream that
    others already saw as finished. One finding per function that writes a cell slot."""
    F = cx.facts
    res = []
    n = 0
    for fn in sorted(F.fns.values(), key=lambda f: f['key']):
        if fn['kind'] in ('closure', 'coroutine', 'const') or not fn.get('file', '').startswith('src/') or ('verif_controls' in fn.get('file', '')) != bool(cx.control):
            continue
        g = cx.graph(fn['key'])
        writes = []
        for x in g.nodes:
            if x['kind'] == 'assign' and '@' in access_path(x['lhs'])[1]:
                writes.append((x, x['lhs'], [x['rhs']]))
            elif x['kind'] == 'call' and x['args'] and x['name'] in ('std::option::Option::replace', 'std::option::Option::insert', 'std::mem::replace', 'std::option::Option::get_or_insert') \
                    and '@' in access_path(x['args'][0])[1]:
                writes.append((x, x['args'][0], list(x['args'][1:])))
        if not writes:
            continue
        n += 1
        bad = None
        for x, dst, vals in writes:
            cp = _cell_prefix(dst)
            if cp is None:
                continue
            for v in vals:
                for e in walk(v):
                    if e[0] in ('call', 'field', 'variant') and '!take' in access_path(e)[1] and _cell_prefix(e) == cp:
                        # the stored value was taken out of this very cell earlier in the function
                        ap = access_path(e)[1]
                        dp = access_path(dst)[1]
                        ea = [st for st in ap[ap.index('@') + 1:] if st != '!take']
                        if ea[-2:] == ['as Some', '0']:
                            ea = ea[:-2]
                        da = list(dp[dp.index('@') + 1:])
                        if da[-2:] == ['as Some', '0']:
                            da = da[:-2]
                        if ea == da:
                            bad = x
        res.append(Finding(ID, 'S14', cx.label(fn) if fn.get('impl') else fn['path'], bad is None,
                           'no slot is vacated and refilled with its own content' if bad is None else
                           'the content of a shared slot is taken out, used, and stored back: while it is out the slot looks terminated (is_finished() true, notifications and terminals of other inputs/threads are dropped, hot sources prune it) and the write-back revives the stream',
                           g.loc(bad) if bad is not None else fn['span'], [node_desc(g, bad)] if bad is not None else None))
    if not cx.control and n < 10:
        res.append(Finding(ID, 'S14', 'floor', False, 'only %d functions that write a cell slot found, expected >= 10' % n))
    return res


# ---- S15: dropping an observer is not an event
def s15(cx):
    """a source may drop its observer at any time without having terminated (a Subject whose last handle goes away, a create()
    closure that returns): that is not a terminal and not an unsubscription. No type that implements Observer therefore has a Drop
    impl — a Drop that cancels pending timers, flushes or emits turns "the source went away" into an event of its own (a debounced
    item still waiting for its window is lost, a buffer is flushed early ...). One finding per Drop impl of the crate."""
    F = cx.facts
    res = []
    if cx.control:
        return res
    obs_types = {roles.impl_tag(cx, im) for im in cx.observer_impls()}
    drops = [im for im in F.impls.values() if (im.get('trait') or '').endswith('ops::Drop') or (im.get('trait') or '') in ('std::ops::Drop', 'core::ops::Drop', 'std::ops::drop::Drop')]
    for im in sorted(drops, key=lambda i: (i['file'], i['line'])):
        tag = roles.impl_tag(cx, im)
        bad = tag in obs_types
        res.append(Finding(ID, 'S15', 'Drop for ' + tag, not bad,
                           'not an observer type' if not bad else
                           'an observer type has a Drop impl: being dropped by its source (which may simply go away without terminating) becomes an event — pending timers are cancelled / state is flushed although the stream neither completed, failed nor was unsubscribed',
                           im['span']))
    res.append(Finding(ID, 'S15', 'Drop impls inspected', True, '%d Drop impl(s) in the crate, %d observer types' % (len(drops), len(obs_types))))
    return res


# ---- S13: initial state of flags and counters
def s13(cx):
    from ..graph import fx_of
    from ..core import const_bool
    from ..expr import access_path, strip, render
    F = cx.facts
    res = []
    # 1. how do the notification handlers write each bool / usize field of a state struct?
    writes = {}      # (adt, field) -> set of 'true' / 'false' / '+' / '-' / '?'
    slot_fields = set()
    import re as _re
    for im in cx.observer_impls():
        tag = roles.impl_tag(cx, im)
        if cx.control != ('verif_controls' in tag):
            continue
        m_ = _re.match(r'^(?:MutRc|MutArc)<(?:Option<)?([^<>]+)', tag)
        owner = m_.group(1) if m_ else tag
        for meth in ('next', 'error', 'complete'):
            fn = cx.method(im, meth)
            if fn is None:
                continue
            g = cx.graph(fn['key'])
            for x in g.nodes:
                if x['kind'] != 'assign' or not x.get('lhs_ty'):
                    continue
                ty = F.tystr(x['lhs_ty'])
                if ty not in ('bool', 'usize') and not ty.startswith('std::option::Option<'):
                    continue
                root, steps = access_path(x['lhs'])
                plain = [st for st in steps if not st.startswith(('@', '!', 'as ', '['))]
                if root[0] != 'arg' or root[1] != 1 or not plain:
                    continue
                r = strip(x['rhs'])
                if ty.startswith('std::option::Option<'):
                    if steps[-1:] != [plain[-1]]:
                        continue      # (a write into the payload, not of the Option itself)
                    kind = 'some' if (r[0] == 'agg' and r[2].endswith('Option::Some')) else ('none' if (r[0] == 'agg' and r[2].endswith('Option::None')) else '?')
                elif const_bool(r) is not None:
                    kind = 'true' if const_bool(r) else 'false'
                elif r[0] == 'bin' and r[1].startswith('Add'):
                    kind = '+'
                elif r[0] == 'bin' and r[1].startswith('Sub'):
                    kind = '-'
                elif r[0] == 'field' and r[2] in ('0',) and strip(r[1])[0] == 'bin':
                    kind = '+' if strip(r[1])[1].startswith('Add') else ('-' if strip(r[1])[1].startswith('Sub') else '?')
                else:
                    kind = '?'
                if len(plain) != 1:
                    continue          # (a field of a nested struct: its owner is not this observer type)
                writes.setdefault((owner, plain[-1]), set()).add(kind)
            for x in g.nodes:
                if down_method(x) in ('next', 'error', 'complete') and x['args']:
                    root, steps = access_path(x['args'][0])
                    pl = [st for st in steps if not st.startswith(('@', '!', 'as ', '['))]
                    if root[0] == 'arg' and root[1] == 1 and pl:
                        slot_fields.add((owner, pl[0]))
    # 2. every construction site of a struct that has such a field
    inits = {}       # (adt, field) -> [(expr, fn)]
    for fn in F.fns.values():
        fx = None
        for bi, b in enumerate(fn['blocks']):
            for si, st in enumerate(b['s']):
                if st['k'] == 'assign' and st['rv']['r'] == 'agg' and st['rv'].get('ak') == 'adt' and st['rv'].get('fn'):
                    if fx is None:
                        fx = fx_of(F, fn)
                    for nm, op in zip(st['rv']['fn'], st['rv']['ops']):
                        inits.setdefault((st['rv']['p'], nm), []).append((fx.operand(op), fn))

    def resolve(e, fn, depth=0):
        """constant the initial value chains to: through fields of the constructing operator and parameters of `new`"""
        e = strip(e)
        while e[0] == 'call' and e[1] == 'std::clone::Clone::clone' and e[2]:
            e = strip(e[2][0])
        if e[0] == 'const':
            return e[1].replace('const ', '').split('_')[0]
        if e[0] == 'agg' and e[2].endswith('Option::None'):
            return 'None'
        if e[0] == 'agg' and e[2].endswith('Option::Some'):
            return 'Some'
        if depth > 2:
            return None
        if e[0] == 'field':
            root, steps = access_path(e)
            im = F.impl_of_fn(fn)
            if root[0] == 'arg' and root[1] == 1 and im is not None and len(steps) == 1:
                owner = roles.impl_tag(cx, im)
                vals = {resolve(v, f2, depth + 1) for v, f2 in inits.get((owner, steps[0]), []) if f2.get('name') != 'clone'}
                if len(vals) == 1:
                    return list(vals)[0]
        return None
    n = 0
    for (adt, field), sites in sorted(inits.items()):
        if cx.control != ('verif_controls' in adt):
            continue
        w = writes.get((adt, field))
        if (adt, field) in slot_fields:
            continue          # the downstream slot starts occupied by definition
        if not w or not any(F.tystr(t) in ('bool', 'usize') or F.tystr(t).startswith('std::option::Option<') for f, t in roles.adt_fields(cx, adt) if f == field):
            continue
        if not any(roles.impl_tag(cx, im) == adt or adt.endswith(('ObserverData',)) or True for im in cx.observer_impls()):
            continue
        want = None
        if w == {'true'}:
            want = 'false'
        elif w == {'false'}:
            want = 'true'
        elif w == {'+'}:
            want = '0'
        elif w == {'some'}:
            want = 'None'
        if want is None:
            continue
        for e, fn in sites:
            if fn.get('name') == 'clone':
                continue
            got = resolve(e, fn)
            if got is None:
                continue       # configuration value that does not chain to a constant: not decided
            n += 1
            ok = got == want
            res.append(Finding(ID, 'S13', '%s.%s' % (adt, field) + ('' if cx.control else '|' + fn['path'].split('::')[-1]), ok,
                               ('starts as %s' % got) if ok else
                               'the handlers only ever %s this field, so it has to start as %s, but %s initialises it with %s: the operator begins in its final state' %
                               ('set it to ' + sorted(w)[0] if w != {'+'} else 'increment', want, fn['path'], got), fn['span']))
    if not cx.control and n < 8:
        res.append(Finding(ID, 'S13', 'floor', False, 'only %d initial values of flags/counters resolved, expected >= 8' % n))
    return res
