"""C10 — thread-safe variants serialise delivery and cannot deadlock (DESIGN §3 C10)."""
from ..core import (Finding, lock_scopes, guard_of, down_method, node_desc, SUBSCRIBE, UNSUB_NAMES, FN_CALLS, recv_class)
from ..expr import access_path, strip
from .. import roles
from . import c06, c14

ID = 'C10'
LEVEL = 'other'
EXPLANATION = ('Static rules: L1 serialisation by typing — Observer::next takes &mut self and the crate has no unsafe code (C01.P4), so the only '
               'way to reach a shared observer is through the RefCell/Mutex guards of rc.rs; no other type may carry a RefCell/Mutex; L2 a '
               'SubjectThreads broadcast runs inside one critical section of its observers cell (one common order for all subscribers; same '
               'rule as C06.J1); L3 lock-order graph over every function with callees inlined: (a) the graph of cell classes is acyclic '
               '(no cell is acquired while a guard of the same class or of a class that is ordered after it is held), (b) calls that leave '
               'the library upstream or into user code (subscribe, unsubscribe of a foreign subscription, stored or user closures, polling a '
               'user future) happen under a library lock only at the tabled sites; downstream observer calls only ever descend the pipeline; '
               'L6 no panic from paired cells: where a reader unwraps cell B under the guard of cell A (A non-empty promises B non-empty), every writer empties A before B; L8 a notification handler of an observer that IS a shared state cell (merge, zip, combine_latest) enters that cell once: deciding on the shared state and acting on the decision happen in one critical section (two threads completing the two inputs at once must not both see themselves as the first one); L9 the handlers of observe_on(_threads)/delay(_threads) never lock the handles of the tasks they scheduled, which Remote::poll holds while the subscriber callback runs: every emission returns without waiting for a running callback (same rule as C07.T7); L7 share() tests its connection state and switches it to Connected under one guard of the ShareOp cell (two racing first subscribers cannot both find it unconnected); L4 no lost wake-up (same rules as C14.R3/R4); L5 merge_all takes its slot decision and acts on it in one critical section (same rule as C05.F3). Together: no deadlock among library locks for callers that do not re-enter '
               'from a callback. Does not decide value-dependent panics, fairness or preemption-level schedules.')
ASSUMPTIONS = ['callers do not re-enter the same pipeline from inside a callback (the property\'s own proviso)',
               'std::sync::Mutex and RefCell are not re-entrant; guards are released at the MIR drop of the guard local']

CELL_TYPES_OK = {
    'rc::MutRc': 'the local shared cell', 'rc::MutArc': 'the thread-safe shared cell',
    'ops::future::ObservableFuture': 'RefCell around the channel receiver of to_future() (not an observer)',
    'ops::stream::ObservableStream': 'RefCell around the channel receiver of to_stream() (not an observer)',
}
# (function, kind of foreign call, class of the lock held) — confirmed by reading, one reason each
FOREIGN_UNDER_LOCK = {
    ('<_ as Subscription>::unsubscribe', 'unsubscribe'): 'blanket Option-cell subscription unsubscribes the subscription it owns',
    ('<ops::finalize::FinalizerObserver as Observer>::complete', 'closure'): 'finalizer runs under the guard of its own callback cell (C15.N5)',
    ('<ops::finalize::FinalizerObserver as Observer>::error', 'closure'): 'same',
    ('<ops::finalize::FinalizerSubscription as Subscription>::unsubscribe', 'closure'): 'same',
    ('<ops::ref_count::ShareOp as Observable>::actual_subscribe', 'subscribe'): 'share(): first subscriber connects under the state cell so that the source is subscribed exactly once (C11.P-b)',
    ('<ops::ref_count::ShareOpThreads as Observable>::actual_subscribe', 'subscribe'): 'same (thread-safe instance)',
    ('<ops::throttle::ThrottleObserver as Observer>::complete', 'unsubscribe'): 'cancels the trailing task it owns (through the blanket cell subscription)',
    ('<ops::throttle::ThrottleObserver as Observer>::error', 'unsubscribe'): 'same',
    ('<MutArc<ops::combine_latest::CombineLatestObserver> as Observer>::next', 'closure'): 'combine_latest applies the user combinator to the two latest values kept in the shared cell',
    ('<MutRc<ops::combine_latest::CombineLatestObserver> as Observer>::next', 'closure'): 'same (local instance)',
    ('<scheduler::Remote as Future>::poll', 'poll'): 'the task runs under its handle cell so that cancellation waits for it (C19.H3)',
    ('<scheduler::TaskHandle as Subscription>::unsubscribe', 'unsubscribe'): 'unsubscribes the subscription the task produced',
}
CONTROLS = [
    'L8|<rc::MutArc<verif_controls::SplitFlag<O>> as Observer>::complete',
    'L6|<verif_controls::CtlPairedCells>::close|back',
    'L3a|cycle CtlAbBa',
    'L3b|<verif_controls::LockedFlatten as Observer>::next|subscribe',
]


def cell_class(F, n):
    t = roles.type_tag(F, n['callee']['a'][0]) if n.get('callee') and n['callee'].get('a') else '?'
    root, steps = access_path(n['args'][0])
    f = [s for s in steps if not s.startswith(('@', '!', 'as ', '['))]
    return '%s#%s' % (t, f[-1] if f else 'self')


def lock_graph(cx):
    F = cx.facts
    edges = {}
    foreign = {}
    n_fns = 0
    n_acq = 0
    # private helpers (non-pub, not a trait-impl method) that are called from inside the crate are analysed where they
    # are inlined, not as roots of their own: extracting a few statements into a helper must not create a new site
    called = set()
    for fn in F.fns.values():
        for b in fn['blocks']:
            t = b['t']
            if t['k'] == 'call' and t['f']['o'] == 'const' and 'fn' in t['f']:
                r = t['f']['fn'].get('res')
                if r and r.get('local') and r.get('d') in F.fns:
                    called.add(r['d'])
    for fn in sorted(F.fns.values(), key=lambda f: f['key']):
        if fn['key'] in called and fn['kind'] in ('fn', 'assoc_fn') and not fn.get('pub'):
            im0 = F.impl_of_fn(fn)
            if im0 is None or not im0.get('trait'):
                continue
        g = cx.graph(fn['key'])
        held = lock_scopes(g)
        cls = {}
        for n in g.nodes:
            gd = guard_of(n)
            if gd:
                cls[strip(gd[0])] = cell_class(F, n)
                n_acq += 1
        if not cls:
            continue
        n_fns += 1
        label = roles.stable_label(cx, fn)
        for n in g.nodes:
            hs = held[n['id']]
            if not hs:
                continue
            hc = {cls[strip(h[0])] for h in hs if strip(h[0]) in cls}
            gd = guard_of(n)
            if gd:
                for c in hc:
                    edges.setdefault((c, cell_class(F, n)), []).append((label, g.loc(n)))
            if down_method(n):
                for c in hc:
                    edges.setdefault((c, 'DOWN'), []).append((label, g.loc(n)))
            kind = None
            if n['kind'] in ('call', 'enter') and n['name'] == SUBSCRIBE:
                kind = 'subscribe'
            elif n['kind'] == 'call' and n['name'] in UNSUB_NAMES and not n.get('body'):
                kind = 'unsubscribe'
            elif n['kind'] == 'call' and n['name'] in FN_CALLS:
                kind = 'closure'
            elif n['kind'] == 'call' and n['name'] in ('futures::Future::poll', 'futures::Stream::poll_next'):
                kind = 'poll'
            if kind:
                for c in hc:
                    foreign.setdefault((label, kind), (g.loc(n), node_desc(g, n), c))
    return edges, foreign, n_fns, n_acq


def _cycles(edges):
    adj = {}
    for (a, b) in edges:
        if b != 'DOWN':
            adj.setdefault(a, set()).add(b)
    cyc = []
    color = {}

    def dfs(u, stack):
        color[u] = 1
        stack.append(u)
        for v in sorted(adj.get(u, ())):
            if color.get(v) == 1:
                cyc.append(stack[stack.index(v):] + [v])
            elif v not in color:
                dfs(v, stack)
        stack.pop()
        color[u] = 2
    for u in sorted(adj):
        if u not in color:
            dfs(u, [])
    return cyc


def _l3a_findings(edges, n_fns, n_acq):
    res = []
    cyc = _cycles(edges)
    if cyc:
        for c in cyc[:5]:
            where = edges.get((c[0], c[1]), [('?', '?')])[0]
            res.append(Finding(ID, 'L3a', 'cycle ' + ' -> '.join(c), False,
                               'lock-order cycle among library cells: two threads taking them in opposite orders deadlock (RefCell: BorrowMutError on re-entry)', where[1], [where[0]]))
    else:
        res.append(Finding(ID, 'L3a', 'lock-order graph', True, 'acyclic: %d cell classes, %d order edges (%d to DOWN), from %d functions / %d guard acquisitions' % (
            len({x for e in edges for x in e if x != 'DOWN'}), len(edges), len([e for e in edges if e[1] == 'DOWN']), n_fns, n_acq)))
    for (a, b), sites in sorted(edges.items()):
        if b != 'DOWN':
            res.append(Finding(ID, 'L3a', 'edge %s -> %s' % (a, b), True, 'taken in this order in %d function(s), e.g. %s' % (len({s[0] for s in sites}), sites[0][0]), sites[0][1]))
    if n_acq < 150:
        res.append(Finding(ID, 'L3a', 'floor', False, 'only %d guard acquisitions analysed, expected >= 150' % n_acq))
    return res


def l3a(cx):
    """the lock-order findings alone (used by C06.J10)"""
    edges, foreign, n_fns, n_acq = lock_graph(cx)
    return _l3a_findings(edges, n_fns, n_acq)


def check(cx):
    F = cx.facts
    res = []
    edges, foreign, n_fns, n_acq = lock_graph(cx)
    if cx.control:
        cyc = [c for c in _cycles(edges) if any('verif_controls' in s_[0] or 'CtlAbBa' in s_[0] for s_ in edges.get((c[0], c[1]), []))]
        if cyc:
            res.append(Finding(ID, 'L3a', 'cycle CtlAbBa', False, 'lock-order cycle: ' + ' -> '.join(cyc[0]), 'src/verif_controls.rs'))
        for (label, kind), (loc, desc, c) in sorted(foreign.items()):
            if 'verif_controls' in label:
                res.append(Finding(ID, 'L3b', '%s|%s' % (label, kind), False, 'foreign call under lock %s' % c, loc, [desc]))
        res += l6(cx)
        res += l8(cx)
        return res
    # L1
    tr = F.traits.get('observer::Observer')
    nx = [m for m in (tr['methods'] if tr else []) if m['n'] == 'next']
    t = F.ty(nx[0]['inputs'][0]) if nx else None
    ok = bool(t) and t['k'] == 'ref' and t['m']
    res.append(Finding(ID, 'L1', 'Observer::next(&mut self)', ok, 'items are delivered through an exclusive reference' if ok else 'Observer::next no longer takes &mut self'))
    cells = []
    for p, a in sorted(F.adts.items()):
        for v in a['variants']:
            for f in v['fields']:
                if F.mentions(f['t'], lambda x: x['k'] == 'adt' and x['p'] in ('std::cell::RefCell', 'std::sync::Mutex', 'std::sync::RwLock', 'std::cell::UnsafeCell')):
                    cells.append(p)
    for p in sorted(set(cells)):
        res.append(Finding(ID, 'L1', 'cell type ' + p, p in CELL_TYPES_OK, CELL_TYPES_OK.get(p, 'a RefCell/Mutex outside rc.rs: shared state that bypasses the MutRc/MutArc guard discipline the analysis relies on'), F.adts[p]['span']))
    if 'rc::MutRc' not in cells or 'rc::MutArc' not in cells:
        res.append(Finding(ID, 'L1', 'floor', False, 'MutRc/MutArc not found'))
    # L2
    for f in c06.check(cx):
        if f.rule == 'J1' and 'SubjectThreads' in f.key:
            res.append(Finding(ID, 'L2', f.key, f.ok, f.msg, f.loc, f.witness))
    res += _l3a_findings(edges, n_fns, n_acq)
    # L3b
    for key, (loc, desc, c) in sorted(foreign.items()):
        label, kind = key
        why = FOREIGN_UNDER_LOCK.get(key)
        if why:
            res.append(Finding(ID, 'L3b', '%s|%s' % (label, kind), True, 'tabled: ' + why, loc))
        else:
            res.append(Finding(ID, 'L3b', '%s|%s' % (label, kind), False,
                               'calls out of the library (%s) while holding %s: an upstream or user callback that comes back into the pipeline re-acquires the cell (Mutex: self-deadlock, RefCell: panic)' % (kind, c),
                               loc, [desc]))
    # (an exemption that is no longer used is harmless: the code stopped calling out under that lock)
    # L7: the first-subscriber hand-over of share() is one critical section (same rule as C11.P-b): two threads that subscribe first at
    # the same time must not both find the operator unconnected (the loser would hit the unreachable!() of the state switch)
    res += l7(cx)
    # L5: check-then-act atomicity of the flattening state (no lost wake-up of a queued inner)
    from . import c05
    res += c05.f3(cx, ID, 'L5')
    res += l6(cx)
    res += l8(cx)
    # L4
    for f in c14.r3(cx) + c14.r4(cx):
        res.append(Finding(ID, 'L4', f.key, f.ok, f.msg, f.loc, f.witness))
    # L9: an emission into observe_on_threads / delay_threads returns without waiting for a subscriber callback that is still running
    # on the pool: the notification handlers never lock the handles of their own tasks (same rule as C07.T7) — the handle cell is
    # held by Remote::poll for the whole callback
    from . import c07
    for f in c07.t7(cx):
        res.append(Finding(ID, 'L9', f.key, f.ok, f.msg, f.loc, f.witness))
    return res


def l7(cx):
    """share(): the test of the connection state and the switch to Connected are one critical section of the ShareOp cell — two
    first subscribers racing on two threads must not both find it unconnected (the loser would take the Connected value for a
    connectable: unreachable!()). Where connect() itself happens is C11.P-b."""
    F = cx.facts
    res = []
    m = 0
    for im in F.impls_of('observable::Observable'):
        tag = roles.impl_tag(cx, im)
        if tag not in ('ops::ref_count::ShareOp', 'ops::ref_count::ShareOpThreads'):
            continue
        m += 1
        fn = F.impl_fn(im, 'actual_subscribe')
        g = cx.graph(fn['key'])
        held = lock_scopes(g)
        reps = []
        for x in g.nodes:
            if x['kind'] == 'call' and x['name'] in ('std::mem::replace', 'std::mem::swap', 'std::mem::take') and x['args'] and '@' in access_path(x['args'][0])[1] and recv_class(x['args'][0]).startswith('self.0'):
                reps.append(x)
            if x['kind'] == 'assign' and '@' in access_path(x['lhs'])[1] and recv_class(x['lhs']).startswith('self.0'):
                reps.append(x)
        tests = [x for x in g.nodes if x['kind'] == 'switch' and '@' in access_path(strip(x['discr'])[1] if strip(x['discr'])[0] == 'discr' else x['discr'])[1]
                 and recv_class(strip(x['discr'])[1] if strip(x['discr'])[0] == 'discr' else x['discr']).startswith('self.0')]
        gt = set()
        for x in tests:
            gt |= {strip(h[0]) for h in held[x['id']] if h[1] == 'self.0'}
        bad = [x for x in reps if not ({strip(h[0]) for h in held[x['id']] if h[1] == 'self.0'} & gt)]
        ok = bool(reps) and bool(tests) and not bad
        res.append(Finding(ID, 'L7', cx.label(fn), ok,
                           'the connection state is tested and replaced under one guard of the ShareOp cell' if ok else
                           ('the connection state is written under another guard than the one it was tested under (or none): two racing first subscribers can both find it unconnected'
                            if reps and tests else 'state test / state switch of share() not found'),
                           g.loc(bad[0]) if bad else fn['span'], [node_desc(g, x) for x in bad]))
    if m < 2:
        res.append(Finding(ID, 'L7', 'floor', False, 'ShareOp impls not found'))
    return res


def _cell_take(n, field=None):
    """field name if node empties the Option kept directly in the shared cell self.<field> (take / mem::take / = None)"""
    if n['kind'] == 'call' and n['name'] in ('std::option::Option::take', 'std::mem::take') and n['args']:
        root, steps = access_path(n['args'][0])
        if root[0] == 'arg' and root[1] == 1 and len(steps) >= 2 and steps[-1] == '@' and all(not x.startswith(('@', '!', 'as ', '[')) for x in steps[:-1]):
            return '.'.join(steps[:-1])
    if n['kind'] == 'assign':
        root, steps = access_path(n['lhs'])
        r = strip(n['rhs'])
        if root[0] == 'arg' and root[1] == 1 and len(steps) >= 2 and steps[-1] == '@' and r[0] == 'agg' and r[2].endswith('Option::None'):
            return '.'.join(steps[:-1])
    return None


def l8(cx):
    """one critical section per notification for observers implemented on the shared cell itself"""
    from ..core import explore, ret_states, witness, interesting_default
    F = cx.facts
    res = []
    n = 0
    for im in cx.observer_impls():
        tag = roles.impl_tag(cx, im)
        if not tag.startswith(('MutRc<', 'MutArc<')) or tag.startswith(('MutRc<Option<', 'MutArc<Option<')):
            continue
        if cx.control != ('verif_controls' in tag):
            continue
        for meth in ('next', 'error', 'complete'):
            fn = cx.method(im, meth)
            if fn is None:
                continue
            n += 1
            g = cx.graph(fn['key'])

            def step(st, x, lab):
                gd = guard_of(x)
                if gd and not x['ctx']:
                    root, steps = access_path(gd[0])
                    if root[0] == 'arg' and root[1] == 1 and steps == ['@']:
                        return min(st + 1, 3)
                return st
            reached, pred = explore(g, 0, step)
            bad = [k for k in ret_states(g, reached) if k[1] > 1]
            res.append(Finding(ID, 'L8', cx.label(fn), not bad,
                               '%s() enters the shared state cell %d times on one path: the state it decided on can change between the two critical sections (e.g. both inputs completing at once both see "first completion", and the downstream is never completed)' % (meth, bad[0][1])
                               if bad else 'one critical section per notification', fn['span'], witness(g, pred, bad[0], interesting_default) if bad else None))
    if not cx.control and n < 18:
        res.append(Finding(ID, 'L8', 'floor', False, 'expected the shared-cell observers of merge/zip/combine_latest (6 impls x 3 methods), found %d methods' % n))
    return res


def l6(cx):
    """paired cells: a reader that unwraps the Option of cell B while holding the guard of cell A relies on
    'A non-empty => B non-empty'; every writer must therefore empty A before it empties B"""
    from ..core import explore, witness, interesting_default
    F = cx.facts
    res = []
    deps = {}
    by_adt = {}
    for fn in F.fns.values():
        im = F.impl_of_fn(fn)
        if im is None:
            continue
        tag = roles.impl_tag(cx, im)
        if cx.control != ('verif_controls' in tag):
            continue
        by_adt.setdefault(tag, []).append(fn)
    for tag, fns in sorted(by_adt.items()):
        for fn in fns:
            g = cx.graph(fn['key'], inline=False)
            unwraps = []
            for n in g.nodes:
                if n['kind'] == 'call' and n['name'] in ('std::option::Option::unwrap', 'std::option::Option::expect') and n['args']:
                    root, steps = access_path(n['args'][0])
                    if root[0] == 'arg' and root[1] == 1 and len(steps) >= 2 and steps[-1] == '@' and all(not x.startswith(('@', '!', 'as ', '[')) for x in steps[:-1]):
                        unwraps.append((n, '.'.join(steps[:-1])))
            if not unwraps:
                continue
            held = lock_scopes(g)
            for n, b in unwraps:
                for gd in held[n['id']]:
                    root, steps = access_path(gd[0])
                    if root[0] == 'arg' and root[1] == 1 and steps and steps[-1] == '@':
                        a = '.'.join(steps[:-1])
                        if a != b:
                            deps.setdefault((tag, a, b), (cx.label(fn), g.loc(n)))
    for (tag, a, b), (reader, rloc) in sorted(deps.items()):
        for fn in by_adt[tag]:
            g = cx.graph(fn['key'])
            if not any(_cell_take(n) == b for n in g.nodes):
                continue

            def step(st, n, lab):
                if st == 'BAD':
                    return None
                t = _cell_take(n)
                if t == a:
                    return 'a-empty'
                if t == b and st != 'a-empty':
                    return 'BAD'
                return st
            reached, pred = explore(g, 'start', step)
            bad = [k for k in reached if k[1] == 'BAD']
            key = '%s|%s' % (cx.label(fn), b)
            if bad:
                res.append(Finding(ID, 'L6', key, False,
                                   'empties cell `%s` while cell `%s` may still be non-empty: %s unwraps `%s` under the guard of `%s` after seeing it non-empty, so a call that '
                                   'runs in between panics (and poisons the Mutex for everybody else)' % (b, a, reader, b, a), fn['span'], witness(g, pred, bad[0], interesting_default)))
            else:
                res.append(Finding(ID, 'L6', key, True, '`%s` is emptied before `%s` (reader %s relies on %s non-empty => %s non-empty)' % (a, b, reader, a, b), fn['span']))
    if not cx.control and not deps:
        res.append(Finding(ID, 'L6', 'no paired cells', True, 'no reader unwraps one shared cell under the guard of another: nothing to order'))
    return res


def thorough():
    from ..witness import run_witnesses
    return run_witnesses(ID, ['w3'])
