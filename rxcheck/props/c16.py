"""C16 — ending a stream early retires the producers that feed it (DESIGN §3 C16)."""
from ..core import (Finding, explore, witness, ret_states, down_method, const_bool, sw_value, reachable,
                    interesting_default, node_desc, mentions)
from ..expr import access_path, strip, render
from ..core import OBS_METHODS
from .. import roles

ID = 'C16'
LEVEL = 'other'
EXPLANATION = ('Static rule set over the MIR event graphs of every Observer impl and every producer: '
               'E1 is_finished forwards to the downstream observer on every path (constant only on the empty-slot path); '
               'E2 every producer loop / repeating task consults is_finished before each next; '
               'E3 RepeatTask::poll returns Ready without re-arming when the task declines; '
               'E4 a terminal sent from inside next() is sent on a value take()n out of the slot; '
               'E7 is_finished() of every Observer impl is a pure read (shared guards only, no effect): producers ask it from inside running emissions; E6 the early terminators (take, take_while(_inclusive)) really end the stream when their condition is met, i.e. empty their slot so that is_finished turns true upstream (same rule as C03.S8); E5 a stream-driving task consults is_finished between an emission and the next suspension (Pending), so a stream '
               'ended from inside next() retires the task even when the inner stream stays quiet. '
               'Decides the retirement protocol per impl; does not decide timing ("within one period").')
ASSUMPTIONS = ['leaf observers (role table) are the ends of a pipeline and may answer is_finished locally']

CONTROLS = [
    'E1|<verif_controls::ConstFinishedObserver<O> as Observer>::is_finished',
    'E1|<verif_controls::HalfFinishedObserver<O> as Observer>::is_finished',
    'E1|<verif_controls::AlwaysFinishedObserver<O> as Observer>::is_finished',
    'E1|<verif_controls::AndFinishedObserver<O> as Observer>::is_finished',
    'E1|<verif_controls::OrFinishedObserver<O> as Observer>::is_finished',
    'E2|<verif_controls::EagerIter<I> as Observable>::actual_subscribe',
    'E2|verif_controls::eager_tick',
    'E4|<verif_controls::CompleteInNext<O> as Observer>::next',
    'E5|<verif_controls::LateCheckDriver<S, O> as Future>::poll',
]
CONTROLS_OK = [
    'E1|<verif_controls::GoodForwardObserver<O> as Observer>::is_finished',
]


def check(cx):
    out = []
    out += e1(cx)
    out += e2(cx)
    out += e3(cx)
    out += e4(cx)
    out += e5(cx)
    out += e6(cx)
    out += e7(cx)
    return out


# ---------------------------------------------------------------- E1
def e1(cx):
    F = cx.facts
    res = []
    for im in cx.observer_impls():
        fn = cx.method(im, 'is_finished')
        if fn is None:
            continue
        label = cx.label(fn)
        if roles.is_leaf_observer(cx, im):
            continue
        g = cx.graph(fn['key'])
        if g.incomplete:
            res.append(Finding(ID, 'E1', label, False, 'analysis incomplete: %r' % (g.incomplete,), fn['span']))
            continue

        down_vals = {strip(x['value']) for x in g.nodes if x['kind'] == 'call' and down_method(x) == 'is_finished'}

        def step(st, n, lab):
            k = n['kind']
            # the downstream's own answer is branched on (`down.is_finished() || something_else`)
            d0, v0 = sw_value(lab)
            if d0 is not None and v0 in (0, 1) and st in ('down', 'down_f', 'down_t'):
                dd0 = strip(d0)
                neg0 = 0
                while dd0[0] == 'un' and dd0[1] == 'Not':
                    dd0 = strip(dd0[2])
                    neg0 ^= 1
                if dd0 in down_vals:
                    st = 'down_t' if (v0 ^ neg0) == 1 else 'down_f'
            ret_slot = (not n.get('ctx')) and ((k == 'assign' and n['lhs'][0] == 'local' and n['lhs'][1] == 0) or
                                               (k == 'call' and n.get('dest') and n['dest'][0] == 'local' and n['dest'][1] == 0 and down_method(n) != 'is_finished'))
            if st == 'down_t' and ret_slot:
                # the downstream said it is finished: the answer on this path must be true (`down.is_finished() && own_condition` hides the end from the producers)
                if k == 'call' or (const_bool(n['rhs']) is not True and strip(n['rhs']) not in down_vals):
                    return 'under'
            if st == 'down_f' and ret_slot and k == 'call':
                return 'extra'
            if st == 'down_f' and k == 'assign' and not n['ctx'] and n['lhs'][0] == 'local' and n['lhs'][1] == 0:
                b0 = const_bool(n['rhs'])
                if b0 is False:
                    return 'down'
                if strip(n['rhs']) not in down_vals:
                    return 'extra'
            if st in ('extra', 'under'):
                return st
            if k == 'call':
                m = down_method(n)
                if m == 'is_finished':
                    return 'down'
                if n['name'] in ('std::option::Option::map_or', 'std::option::Option::is_none_or') and st == 'none':
                    dflt = const_bool(n['args'][1]) if len(n['args']) > 1 and n['name'].endswith('map_or') else True
                    if dflt is True:
                        return 'empty_true'
                    if dflt is False:
                        return 'empty_false'
            elif k == 'enter' and n.get('via') in ('std::option::Option::map_or', 'std::option::Option::is_none_or'):
                # the closure runs: the slot is not empty on this path
                if st in ('empty_true', 'empty_false'):
                    return 'none'
            elif k == 'join' or k == 'switch':
                d, v = sw_value(lab)
                if d is not None and st == 'none':
                    dd = strip(d)
                    if dd[0] == 'discr' and v == 0:
                        return 'empty'
            elif k == 'assign':
                if render(n['lhs']) in ('_0',) or (n['lhs'][0] == 'local' and (n['lhs'][1] == 0 or (isinstance(n['lhs'][1], tuple) and n['lhs'][1][1] == 0 and not n['ctx']))):
                    b = const_bool(n['rhs'])
                    if n['ctx']:
                        # the return slot of an inlined is_finished (e.g. the blanket handle impl written as a match)
                        if b is True and st == 'empty':
                            return 'empty_true'
                        return st
                    if b is True and st == 'empty':
                        return 'empty_true'
                    if b is not None and st in ('none', 'empty'):
                        return 'const_' + str(b).lower()
            return st

        reached, pred = explore(g, 'none', step)
        bad = [(nid, st) for nid, st in ret_states(g, reached) if st not in ('down', 'down_t', 'down_f', 'empty_true')]
        if bad:
            nid, st = bad[0]
            rets0 = [x['rhs'] for x in g.nodes if x['kind'] == 'assign' and not x['ctx'] and x['lhs'][0] == 'local' and x['lhs'][1] == 0]
            rets0 += [x['value'] for x in g.nodes if x['kind'] == 'call' and not x['ctx'] and x.get('dest') and x['dest'][0] == 'local' and x['dest'][1] == 0]
            slot_only = bool(rets0) and all(strip(r)[0] == 'call' and strip(r)[1] == 'std::option::Option::is_none' for r in rets0)
            msg = {'none': 'answers only whether its own slot is empty and never asks the downstream observer: a downstream that finished early (take, first, ...) is not reported upstream' if slot_only else 'a path returns without asking the downstream observer',
                   'const_false': 'returns the constant false: producers upstream of this observer never learn that the stream ended',
                   'const_true': 'returns the constant true on a path where the downstream slot is not known to be empty',
                   'extra': 'answers from something else than the downstream observer on a path where the downstream said it is not finished (`down.is_finished() || own_condition`): the operator reports finished while its downstream is alive',
                   'under': 'answers from something else than the downstream observer on a path where the downstream said it is finished (`down.is_finished() && own_condition`): the end of the stream is hidden from the producers upstream, which are never retired',
                   'empty': 'empty-slot path does not answer true',
                   'empty_false': 'empty-slot path answers false (a finished stream looks alive)'}.get(st, st)
            res.append(Finding(ID, 'E1', label, False, msg, fn['span'], witness(g, pred, (nid, st), interesting_default)))
            res[-1].state = st
        else:
            res.append(Finding(ID, 'E1', label, True, 'forwards is_finished', fn['span']))
    return res


# ---------------------------------------------------------------- E2
# combinators that stop calling their closure once it returns this kind of value
_SHORT = {'try_for_each': 'break', 'try_fold': 'break', 'all': 'false', 'any': 'true', 'find': 'true', 'position': 'true', 'find_map': 'some',
          'take_while': 'false', 'map_while': 'none', 'skip_while': 'false'}


def _ret_kind(e):
    e = strip(e)
    if e[0] == 'agg':
        if e[2].endswith(('ControlFlow::Break', 'Result::Err', 'Option::None')):
            return 'break' if not e[2].endswith('Option::None') else 'none'
        if e[2].endswith('Option::Some'):
            return 'some'
        if e[2].endswith(('ControlFlow::Continue', 'Result::Ok')):
            return 'continue'
    b = const_bool(e)
    if b is not None:
        return 'true' if b else 'false'
    return None


def _asks_again(g, start, targets):
    """is one of `targets` reachable from `start`? A closure running under a short-circuiting combinator (try_for_each, all, any,
    find, take_while…) is not re-entered once it returned the value that stops the combinator (tracked per path)"""
    seen = set()
    work = [(start, None)]
    while work:
        nid, last = work.pop()
        if (nid, last) in seen:
            continue
        seen.add((nid, last))
        n = g.nodes[nid]
        if nid in targets:
            return True
        if n['kind'] == 'assign' and n['lhs'][0] == 'local' and isinstance(n['lhs'][1], tuple) and n['lhs'][1][1] == 0:
            last = _ret_kind(n['rhs']) or 'other'
        if n['kind'] == 'exit' and n.get('name') == '<closure>':
            stop = _SHORT.get((n.get('via') or '').rsplit('::', 1)[-1])
            if stop is not None and last is not None and (last == stop or (stop == 'break' and last in ('break', 'none'))):
                continue      # the combinator ends here: nothing is pulled any more
            last = None
        for m, k, l in g.succs(nid):
            if k == 'u':
                continue
            work.append((m, last))
    return False


def producer_roots(cx):
    """(fn, kind) for every producer: repeating task fns, and actual_subscribe / poll / poll_next
    bodies with a cycle that contains a downstream next"""
    F = cx.facts
    roots = {}
    # repeating task functions
    from ..graph import fx_of
    for fn in F.fns.values():
        for b in fn['blocks']:
            t = b['t']
            if t['k'] == 'call' and t['f']['o'] == 'const' and 'fn' in t['f']:
                nm = t['f']['fn']['p']
                if 'RepeatTask' in nm and nm.endswith('::new') and len(t['a']) >= 2:
                    a = strip(fx_of(F, fn).operand(t['a'][1]))
                    if a[0] == 'fn' and a[1] in F.fns:
                        roots[a[1]] = 'task'
    for im in F.impls.values():
        tr = im.get('trait')
        meth = {'observable::Observable': 'actual_subscribe', 'futures::Future': 'poll', 'futures::Stream': 'poll_next'}.get(tr)
        if not meth:
            continue
        fn = F.impl_fn(im, meth)
        if fn is None or fn['key'] in roots:
            continue
        g = cx.graph(fn['key'])
        nexts = [n['id'] for n in g.nodes if down_method(n) == 'next']
        if not nexts:
            continue
        on_cycle = False
        for nid in nexts:
            succ = [m for m, k, l in g.succs(nid)]
            if nid in reachable(g, succ):
                on_cycle = True
                break
        if on_cycle:
            roots[fn['key']] = 'loop'
    return roots


def e2(cx):
    F = cx.facts
    res = []
    roots = producer_roots(cx)
    for key, kind in sorted(roots.items()):
        fn = F.fns[key]
        label = cx.label(fn)
        why = roles.finite_flush_exempt(cx, fn)
        if why:
            continue
        g = cx.graph(key)
        nexts = [n['id'] for n in g.nodes if down_method(n) == 'next']
        if kind == 'loop':
            nexts = [nid for nid in nexts if nid in reachable(g, [m for m, k, l in g.succs(nid)])]
        # the producer's own call of is_finished on its observer (resolved or not); that the callee
        # forwards downstream is E1's obligation for that observer type
        isfin = lambda n: n['kind'] in ('call', 'enter') and OBS_METHODS.get(n['name']) == 'is_finished'
        starts = [g.entry] + [m for nid in nexts for m, k, l in g.succs(nid)]
        seen = reachable(g, starts, stop=isfin)
        hit = [nid for nid in nexts if nid in seen and not isfin(g.nodes[nid])]
        fin_nodes = [n for n in g.nodes if isfin(n)]
        used = False
        # the answer may travel through bool locals and through the return value of an inlined helper before it is branched on
        derived = [fnode['value'] for fnode in fin_nodes]
        dlocals = set()
        changed = True
        while changed:
            changed = False
            for n in g.nodes:
                from_fin = lambda e: mentions(e, lambda x: x in derived or (x[0] == 'local' and x[1] in dlocals))
                if n['kind'] == 'assign' and n['lhs'][0] == 'local' and n['lhs'][1] not in dlocals and from_fin(n['rhs']):
                    dlocals.add(n['lhs'][1])
                    changed = True
                if n['kind'] in ('call', 'exit') and n.get('dest') and n['dest'][0] == 'local' and n['dest'][1] not in dlocals and n.get('value') in derived:
                    dlocals.add(n['dest'][1])
                    changed = True
                if n['kind'] == 'exit' and n.get('value') and n['value'] not in derived and n.get('body'):
                    L = (n['ctx'] + ((n['fn'], n['bb'], n['body']),), 0)
                    if L in dlocals:
                        derived.append(n['value'])
                        changed = True
        for n in g.nodes:
            if n['kind'] == 'switch' and mentions(n['discr'], lambda x: x in derived or (x[0] == 'local' and x[1] in dlocals)):
                used = True
        # once the observer answered "finished" a looping producer leaves its loop: from the finished branch the question is never
        # asked again (a `return` inside a for_each closure only skips one item — the iterator is still pulled to its end)
        spins = None
        if kind == 'loop':
            for n in g.nodes:
                if n['kind'] != 'switch':
                    continue
                d0 = strip(n['discr'])
                neg = False
                while d0[0] == 'un' and d0[1] == 'Not':
                    d0 = strip(d0[2])
                    neg = not neg
                if d0 not in [strip(x) for x in derived]:
                    continue
                for m_, k_, l_ in g.succs(n['id']):
                    dd_, v_ = sw_value(l_)
                    if v_ not in (0, 1):
                        continue
                    if (v_ == 1) != neg:      # the branch on which is_finished() answered true
                        if _asks_again(g, m_, {fnode['id'] for fnode in fin_nodes}):
                            spins = n
        if hit:
            n = g.nodes[hit[0]]
            res.append(Finding(ID, 'E2', label, False,
                               'producer emits next without consulting is_finished first (%s): a downstream take/first/… cannot stop it' % kind,
                               g.loc(n), [node_desc(g, n)]))
        elif not used:
            res.append(Finding(ID, 'E2', label, False, 'is_finished is called but its result does not guard the emission', fn['span']))
        elif spins is not None:
            res.append(Finding(ID, 'E2', label, False,
                               'after is_finished() answered true the producer stays in its loop (the question is asked again for the next item): the items are no longer delivered but the source is still pulled to its end — an unbounded iterator never returns from subscribe',
                               g.loc(spins), [node_desc(g, spins)]))
        else:
            res.append(Finding(ID, 'E2', label, True, 'is_finished consulted before every next (%s)' % kind, fn['span']))
    if not cx.control and len(roots) < roles.FLOORS['C16.E2.producers']:
        res.append(Finding(ID, 'E2', 'floor', False, 'only %d producer roots found, expected >= %d (rule would pass vacuously)' % (
            len(roots), roles.FLOORS['C16.E2.producers'])))
    return res


# ---------------------------------------------------------------- E3
def e3(cx):
    F = cx.facts
    res = []
    found = 0
    for im in F.impls_of('futures::Future'):
        if 'RepeatTask' not in im['self_s']:
            continue
        fn = F.impl_fn(im, 'poll')
        g = cx.graph(fn['key'], forward=True)      # the answer may travel through a private helper (`run_tick() -> bool`)
        label = cx.label(fn)
        found += 1
        from ..core import own_fnptr_call
        task_calls = [n for n in g.nodes if own_fnptr_call(n)]
        if len(task_calls) != 1:
            res.append(Finding(ID, 'E3', label, False, 'expected exactly one call of the task fn pointer, found %d' % len(task_calls), fn['span']))
            continue
        tc = task_calls[0]
        tv = strip(tc['value'])

        def answer(lab):
            """0/1 when this edge is a branch on the task's answer (None otherwise)"""
            d, v = sw_value(lab)
            if d is None or v not in (0, 1):
                return None
            dd = strip(d)
            neg = 0
            while dd[0] == 'un' and dd[1] == 'Not':
                dd = strip(dd[2])
                neg ^= 1
            return (v ^ neg) if dd == tv else None
        if not any(answer(l) is not None for n in g.nodes for m, k, l in g.succs(n['id'])):
            res.append(Finding(ID, 'E3', label, False, 'the task result is not branched on', g.loc(tc)))
            continue

        def step(st, nd, lab):
            if st == 'BAD':
                return None
            a = answer(lab)
            if a is not None:
                if st in (0, 1) and st != a:
                    return None           # the same answer was already branched on the other way (helper + caller)
                st = a
            if nd is tc:
                return 'asked' if st != 0 else 'BAD'
            if st == 0 and nd['kind'] in ('call', 'enter') and nd['name'].endswith('new_timer'):
                return 'BAD'
            return st
        reached, pred = explore(g, 'start', step)
        bad = [k for k in reached if k[1] == 'BAD']
        declined_returns = any(k[1] == 0 for k in ret_states(g, reached))
        ok = not bad and declined_returns
        msg = 'declining task ends the future without re-arming'
        if bad:
            msg = 'after the task declined (false) the timer is re-armed / the task may run again'
        elif not declined_returns:
            msg = 'declining branch does not return'
        res.append(Finding(ID, 'E3', label, ok, msg, fn['span'], witness(g, pred, bad[0], interesting_default) if bad else None))
    if found == 0 and not cx.control:
        res.append(Finding(ID, 'E3', 'floor', False, 'RepeatTask::poll not found'))
    return res


# ---------------------------------------------------------------- E4
def e4(cx):
    res = []
    n_sites = 0
    for im in cx.observer_impls():
        fn = cx.method(im, 'next')
        if fn is None:
            continue
        g = cx.graph(fn['key'])
        label = cx.label(fn)
        terms = [n for n in g.nodes if down_method(n) in ('complete', 'error')]
        if not terms:
            continue
        bad = None
        for n in terms:
            n_sites += 1
            root, steps = access_path(n['args'][0])
            if '!take' not in steps and not roles.TERMINAL_ON_CLONED_HANDLE.get(roles.stable_label(cx, fn)):
                bad = n
        if bad is not None:
            res.append(Finding(ID, 'E4', label, False,
                               'next() sends a terminal on a downstream observer that stays in its slot: is_finished keeps answering for a live stream',
                               g.loc(bad), [node_desc(g, bad)]))
        else:
            res.append(Finding(ID, 'E4', label, True, 'terminals sent from next() consume a taken slot value', fn['span']))
    if not cx.control and n_sites < roles.FLOORS['C16.E4.sites']:
        res.append(Finding(ID, 'E4', 'floor', False, 'only %d terminal-in-next sites, expected >= %d' % (n_sites, roles.FLOORS['C16.E4.sites'])))
    return res


# ---------------------------------------------------------------- E5
def _is_pending(e):
    e = strip(e)
    return e[0] == 'agg' and e[2].endswith('Poll::Pending')


def e5(cx):
    """a task that relays an external stream/future: after handing an item downstream it must look at is_finished
    before it suspends, because once the downstream ended the stream nobody else will wake or cancel it"""
    F = cx.facts
    res = []
    n = 0
    for im in F.impls.values():
        tr = im.get('trait')
        meth = {'futures::Future': 'poll'}.get(tr)
        if not meth:
            continue
        fn = F.impl_fn(im, meth)
        if fn is None:
            continue
        g = cx.graph(fn['key'])
        polls = [x for x in g.nodes if x['kind'] == 'call' and x['name'].rsplit('::', 1)[-1] in ('poll_next', 'try_poll_next', 'poll_next_unpin')]
        if not polls or not any(down_method(x) == 'next' for x in g.nodes):
            continue
        n += 1
        label = cx.label(fn)
        isfin = lambda nd: nd['kind'] in ('call', 'enter') and OBS_METHODS.get(nd['name']) == 'is_finished'

        def step(st, nd, lab):
            if st == 'BAD':
                return None
            if down_method(nd) == 'next':
                return 'emitted'
            if isfin(nd):
                return 'checked'
            if nd['kind'] == 'assign' and not nd['ctx'] and nd['lhs'][0] == 'local' and nd['lhs'][1] == 0 and _is_pending(nd['rhs']) and st == 'emitted':
                return 'BAD'
            return st
        reached, pred = explore(g, 'start', step)
        bad = [k for k in reached if k[1] == 'BAD']
        if bad:
            res.append(Finding(ID, 'E5', label, False,
                               'after handing an item downstream the task can suspend (Pending) without having consulted is_finished: '
                               'if that item made the downstream end the stream and the inner stream stays quiet, the task is never retired',
                               fn['span'], witness(g, pred, bad[0], interesting_default)))
        else:
            res.append(Finding(ID, 'E5', label, True, 'is_finished is consulted between every emission and the next suspension', fn['span']))
    if not cx.control and n < 2:
        res.append(Finding(ID, 'E5', 'floor', False, 'expected the two stream driver futures, found %d' % n))
    return res


def e6(cx):
    """the operators that end a stream early do end it at the item their definition names (same rule as C03.S8)"""
    if cx.control:
        return []
    from . import c03
    out = []
    for f in c03.s8(cx):
        if any(t in f.key for t in ('take::TakeObserver', 'take_while::TakeWhileObserver')):
            out.append(Finding(ID, 'E6', f.key, f.ok, f.msg, f.loc, f.witness))
    if len(out) < 2:
        out.append(Finding(ID, 'E6', 'floor', False, 'expected take and take_while, found %d' % len(out)))
    return out


def e7(cx):
    if cx.control:
        return []
    from . import c03
    fns = [cx.method(im, 'is_finished') for im in cx.observer_impls()]
    out = c03.query_findings(cx, [f for f in fns if f is not None], ID, 'E7', 'is_finished()')
    if len(out) < 60:
        out.append(Finding(ID, 'E7', 'floor', False, 'only %d is_finished() implementations found' % len(out)))
    return out
