"""Tiny regular-expression engine over event tokens (Brzozowski derivatives), used for the
LANG rule template (DESIGN §2): the set of event words along all paths of an event graph must
be included in the language of a spec such as  'next* complete'  or  '(next complete) | error'."""
import re

EPS = ('eps',)
NULL = ('null',)


def tok(t):
    return ('tok', t)


def cat(a, b):
    if a == NULL or b == NULL:
        return NULL
    if a == EPS:
        return b
    if b == EPS:
        return a
    return ('cat', a, b)


def alt(a, b):
    if a == NULL:
        return b
    if b == NULL:
        return a
    if a == b:
        return a
    # canonical order keeps the state space finite
    x, y = sorted([a, b], key=repr)
    return ('alt', x, y)


def star(a):
    if a in (EPS, NULL):
        return EPS
    if a[0] == 'star':
        return a
    return ('star', a)


def nullable(r):
    k = r[0]
    if k == 'eps' or k == 'star':
        return True
    if k in ('null', 'tok'):
        return False
    if k == 'cat':
        return nullable(r[1]) and nullable(r[2])
    if k == 'alt':
        return nullable(r[1]) or nullable(r[2])
    raise ValueError(r)


def deriv(r, t):
    k = r[0]
    if k in ('eps', 'null'):
        return NULL
    if k == 'tok':
        return EPS if r[1] == t else NULL
    if k == 'cat':
        d = cat(deriv(r[1], t), r[2])
        if nullable(r[1]):
            return alt(d, deriv(r[2], t))
        return d
    if k == 'alt':
        return alt(deriv(r[1], t), deriv(r[2], t))
    if k == 'star':
        return cat(deriv(r[1], t), r)
    raise ValueError(r)


_TOK = re.compile(r'\s*([A-Za-z_][A-Za-z_0-9.]*|[()|*?+])')


def parse(spec):
    toks = _TOK.findall(spec)
    pos = [0]

    def peek():
        return toks[pos[0]] if pos[0] < len(toks) else None

    def eat():
        pos[0] += 1
        return toks[pos[0] - 1]

    def p_alt():
        a = p_cat()
        while peek() == '|':
            eat()
            a = alt(a, p_cat())
        return a

    def p_cat():
        a = EPS
        while peek() is not None and peek() not in ('|', ')'):
            a = cat(a, p_post())
        return a

    def p_post():
        a = p_atom()
        while peek() in ('*', '?', '+'):
            op = eat()
            if op == '*':
                a = star(a)
            elif op == '?':
                a = alt(a, EPS)
            else:
                a = cat(a, star(a))
        return a

    def p_atom():
        t = eat()
        if t == '(':
            a = p_alt()
            if eat() != ')':
                raise ValueError('unbalanced: ' + spec)
            return a
        return tok(t)

    r = p_alt()
    if pos[0] != len(toks):
        raise ValueError('cannot parse spec: ' + spec)
    return r


def show(r):
    k = r[0]
    if k == 'eps':
        return 'ε'
    if k == 'null':
        return '∅'
    if k == 'tok':
        return r[1]
    if k == 'cat':
        return '%s %s' % (show(r[1]), show(r[2]))
    if k == 'alt':
        return '(%s | %s)' % (show(r[1]), show(r[2]))
    if k == 'star':
        return '(%s)*' % show(r[1])
