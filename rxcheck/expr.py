"""Access-path / value expressions resolved from MIR-lite (DESIGN §1.1 'receiver place').

Expressions are hashable tuples:
  ('arg', n, name)               function argument local n
  ('local', n, name)             local that is not a single-def temporary
  ('field', base, name)          field projection (name or index as str)
  ('variant', base, vname)       enum downcast
  ('index', base)
  ('call', name, args, site)     value returned by a call; site=(fnkey, bb)
  ('agg', kind, name, ops, site) aggregate (kind adt/tuple/closure/coroutine/array)
  ('const', text) / ('fn', key, path) / ('discr', base) / ('bin', op, a, b) / ('un', op, a)
  ('unknown', tag)
References, derefs and casts are transparent.
"""
import re

_GEN = re.compile(r'::<[^<>]*>')


def norm_path(p):
    """strip generic argument lists: std::option::Option::<T>::take -> std::option::Option::take"""
    prev = None
    while prev != p:
        prev = p
        p = _GEN.sub('', p)
    # "<impl ...>" style segments are kept as is
    return p


# private functions / trait methods that rule tables name, recognised by role when they were renamed (filled by core.Cx from the
# facts of the tree under analysis): actual normalised name -> the name the tables use
NAME_ALIASES = {}


def callee_name(c):
    """normalised name of a callee descriptor"""
    if c is None:
        return '?'
    if c.get('tr'):
        n = c['tr'] + '::' + (c.get('n') or '?')
    else:
        n = norm_path(c['p'])
    return NAME_ALIASES.get(n, n)


TRANSPARENT = {
    'std::ops::Deref::deref', 'std::ops::DerefMut::deref_mut',
    'std::option::Option::as_mut', 'std::option::Option::as_ref',
    'std::option::Option::as_deref_mut', 'std::option::Option::as_deref',
    'std::convert::AsMut::as_mut', 'std::convert::AsRef::as_ref',
    'std::pin::Pin::as_mut', 'std::pin::Pin::get_mut', 'std::pin::Pin::new',
    'std::pin::Pin::new_unchecked', 'std::pin::Pin::get_unchecked_mut',
    'std::pin::Pin::as_ref', 'std::pin::Pin::get_ref', 'std::pin::Pin::into_inner',
    'std::borrow::BorrowMut::borrow_mut', 'std::borrow::Borrow::borrow',
    'std::convert::Into::into', 'std::convert::From::from',
    'std::boxed::Box::new', 'std::boxed::Box::pin',
    'std::iter::IntoIterator::into_iter',
    'std::result::Result::as_ref', 'std::result::Result::as_mut',
    'std::iter::Iterator::filter', 'std::iter::Iterator::rev', 'std::iter::Iterator::by_ref', 'std::iter::Iterator::skip',
    'std::iter::Iterator::take_while', 'std::iter::Iterator::skip_while', 'std::iter::Iterator::fuse', 'std::iter::Iterator::peekable',
    'std::iter::Iterator::take', 'std::iter::Iterator::step_by',
}


_const_cache = {}


def _const_item_expr(facts, path):
    if not path or not isinstance(path, str):
        return None
    k = id(facts)
    if k not in _const_cache:
        _const_cache[k] = {fn['path']: fn for fn in facts.fns.values() if fn.get('kind') == 'const'}
    fn = _const_cache[k].get(path.replace('const ', ''))
    if fn is None:
        return None
    if 'expr' not in fn:
        fn['expr'] = None
        defs = [(bi, si, st) for bi, b in enumerate(fn['blocks']) for si, st in enumerate(b['s'])
                if st['k'] == 'assign' and st['pl']['l'] == 0 and not st['pl']['p']]
        calls = [b for b in fn['blocks'] if b['t']['k'] == 'call']
        if len(defs) == 1 and not calls:
            fx = FnExprs(facts, fn)
            e = fx.rvalue(defs[0][2]['rv'], (fn['key'], defs[0][0], defs[0][1]))
            if not any(x[0] in ('local', 'arg', 'unknown') for x in walk(e)):
                fn['expr'] = e
    return fn['expr']


class FnExprs:
    """per-function resolver"""

    def __init__(self, facts, fn, snapshots=False):
        self.facts = facts
        self.fn = fn
        self.key = fn['key']
        self.argc = fn['argc']
        self.names = {}
        self.cap_names = {}
        caps = fn.get('captures') or []
        for d in fn.get('dbg', []):
            pl = d['pl']
            if not pl['p']:
                self.names.setdefault(pl['l'], d['n'])
            elif pl['l'] == 1 and fn['kind'] in ('closure', 'coroutine'):
                fields = [e for e in pl['p'] if isinstance(e, dict) and 'f' in e]
                if len(fields) == 1:
                    self.cap_names[fields[0]['f']] = d['n']
        for i, c in enumerate(caps):
            self.cap_names.setdefault(i, c)
        # definitions
        self.defs = {}
        self.partial = set()
        for bi, b in enumerate(fn['blocks']):
            for si, s in enumerate(b['s']):
                if s['k'] == 'assign':
                    pl = s['pl']
                    if not pl['p']:
                        self.defs.setdefault(pl['l'], []).append(('rv', s['rv'], bi, si))
                    elif pl['p'][0] != '*':
                        # (a write through a pointer does not redefine the pointer itself)
                        self.partial.add(pl['l'])
                elif s['k'] == 'setdiscr':
                    self.partial.add(s['pl']['l'])
            t = b['t']
            if t['k'] == 'call':
                d = t['d']
                if not d['p']:
                    self.defs.setdefault(d['l'], []).append(('call', t, bi, None))
                elif d['p'][0] != '*':
                    self.partial.add(d['l'])
            elif t['k'] == 'yield':
                pass
        # snapshots: a user-named local of primitive type (integer, bool) that is computed from memory at one point — `let seen =
        # self.seen;`, `let is_last = self.taken + 1 == self.limit;` — keeps its identity (and its assignment stays a node of the
        # graph): substituting its defining expression at a later use would read the fields as they are *then*
        self.kept = set()
        for n, ds in (self.defs.items() if snapshots else ()):
            if len(ds) != 1 or ds[0][0] != 'rv' or n not in self.names or n in self.partial or n <= self.argc:
                continue
            _k, rv, bi, si = ds[0]
            t = facts.ty(fn['blocks'][bi]['s'][si]['pl']['t']) if hasattr(facts, 'ty') else None
            if not t or t.get('k') != 'prim':
                continue
            if rv['r'] in ('bin', 'un') or (rv['r'] == 'use' and rv['op']['o'] == 'copy' and rv['op']['pl']['p']):
                self.kept.add(n)
        self._cache = {}
        self._busy = set()

    # ------------------------------------------------------------------
    def local_name(self, n):
        return self.names.get(n)

    def local(self, n):
        if n in self._cache:
            return self._cache[n]
        if 1 <= n <= self.argc:
            e = ('arg', n, self.names.get(n) or ('_%d' % n))
        else:
            ds = self.defs.get(n, [])
            if len(ds) == 1 and n not in self.partial and n not in self._busy and n != 0 and n not in self.kept:
                self._busy.add(n)
                kind, what, bi, si = ds[0]
                if kind == 'rv':
                    e = self.rvalue(what, (self.key, bi, si))
                else:
                    e = self.call_value(what, bi)
                self._busy.discard(n)
            else:
                e = ('local', n, self.names.get(n) or ('_%d' % n))
        self._cache[n] = e
        return e

    def place(self, pl):
        e = self.local(pl['l'])
        for el in pl['p']:
            if el == '*':
                continue
            if el == '[]':
                e = ('index', e)
            elif el == '?':
                continue
            elif 'f' in el:
                if el.get('bx'):
                    continue  # Box/Unique/NonNull internals of an elaborated box deref
                nm = el.get('n')
                if nm is None:
                    nm = self.cap_names.get(el['f']) if (e[0] == 'arg' and e[1] == 1 and self.fn['kind'] in ('closure', 'coroutine')) else None
                    if nm is None:
                        nm = str(el['f'])
                    e = mk_field(e, nm, el['f'])
                else:
                    e = mk_field(e, nm, el['f'])
            elif 'd' in el:
                e = ('variant', e, el['d'])
        return e

    def operand(self, op):
        o = op['o']
        if o in ('copy', 'move'):
            return self.place(op['pl'])
        if o == 'const':
            if 'fn' in op:
                c = op['fn']
                return ('fn', c['d'], callee_name(c))
            if 'iv' in op:
                return ('const', str(op['iv']))   # named integer constant, evaluated by the driver
            if 'ivs' in op:
                return ('const', op['ivs'])
            ce = _const_item_expr(self.facts, op.get('v'))
            if ce is not None:
                return ce      # a named constant of this crate with a simple initialiser (`const NO_DELAY: Option<Duration> = None`)
            return ('const', op.get('v', '?'))
        return ('unknown', 'operand')

    def rvalue(self, rv, site):
        r = rv['r']
        if r == 'use':
            return self.operand(rv['op'])
        if r in ('ref', 'rawptr', 'copyderef'):
            return self.place(rv['pl'])
        if r == 'cast':
            return self.operand(rv['op'])
        if r == 'discr':
            return ('discr', self.place(rv['pl']))
        if r == 'bin':
            return ('bin', rv['op'], self.operand(rv['a']), self.operand(rv['b']))
        if r == 'un':
            return ('un', rv['op'], self.operand(rv['a']))
        if r == 'agg':
            ops = tuple(self.operand(o) for o in rv['ops'])
            ak = rv['ak']
            if ak == 'adt':
                return ('agg', 'adt', rv['p'] + '::' + rv['v'], ops, site, tuple(rv.get('fn', [])))
            if ak in ('closure', 'coroutine', 'coroutine_closure'):
                return ('agg', ak, rv['d'], ops, site, ())
            return ('agg', ak, '', ops, site, ())
        return ('unknown', 'rvalue')

    def call_value(self, t, bi):
        f = t['f']
        args = tuple(self.operand(a) for a in t['a'])
        if f['o'] == 'const' and 'fn' in f:
            name = callee_name(f['fn'])
        else:
            name = '<fnptr>'
            args = (self.operand(f),) + args
        return ('call', name, args, (self.key, bi))


def mk_field(base, name, idx):
    """field projection with simplification through aggregates"""
    if base[0] == 'agg':
        ops = base[3]
        names = base[5]
        if names and name in names:
            i = names.index(name)
            if i < len(ops):
                return ops[i]
        elif idx is not None and idx < len(ops) and not names:
            return ops[idx]
    return ('field', base, name, idx)


# ----------------------------------------------------------------------
def subst(e, amap):
    """substitute ('arg', n, _) leaves using amap: n -> expr"""
    k = e[0]
    if k == 'arg':
        return amap.get(e[1], e)
    if k in ('local', 'const', 'fn', 'unknown'):
        return e
    if k == 'field':
        return mk_field(subst(e[1], amap), e[2], e[3] if len(e) > 3 else (int(e[2]) if e[2].isdigit() else None))
    if k in ('variant',):
        return (k, subst(e[1], amap), e[2])
    if k in ('index', 'discr'):
        return (k, subst(e[1], amap))
    if k == 'call':
        return ('call', e[1], tuple(subst(a, amap) for a in e[2]), e[3])
    if k == 'agg':
        return ('agg', e[1], e[2], tuple(subst(a, amap) for a in e[3]), e[4], e[5])
    if k == 'bin':
        return ('bin', e[1], subst(e[2], amap), subst(e[3], amap))
    if k == 'un':
        return ('un', e[1], subst(e[2], amap))
    return e


def qualify_locals(e, ctx):
    """namespacing of ('local', n, name) leaves of an inlined callee"""
    k = e[0]
    if k == 'local':
        return ('local', (ctx, e[1]), e[2]) if not isinstance(e[1], tuple) else e
    if k in ('arg', 'const', 'fn', 'unknown'):
        return e
    if k == 'field':
        return ('field', qualify_locals(e[1], ctx), e[2], e[3] if len(e) > 3 else None)
    if k == 'variant':
        return (k, qualify_locals(e[1], ctx), e[2])
    if k in ('index', 'discr'):
        return (k, qualify_locals(e[1], ctx))
    if k == 'call':
        return ('call', e[1], tuple(qualify_locals(a, ctx) for a in e[2]), _qsite(e[3], ctx))
    if k == 'agg':
        return ('agg', e[1], e[2], tuple(qualify_locals(a, ctx) for a in e[3]), _qsite(e[4], ctx), e[5])
    if k == 'bin':
        return ('bin', e[1], qualify_locals(e[2], ctx), qualify_locals(e[3], ctx))
    if k == 'un':
        return ('un', e[1], qualify_locals(e[2], ctx))
    return e


def _qsite(site, ctx):
    if site and site[0] == 'q':
        return site
    return ('q', ctx, site)


_TRANSPARENT_TAIL = ('iter', 'iter_mut', 'into_iter', 'drain', 'values', 'values_mut', 'as_slice', 'as_mut_slice', 'keys')


def is_transparent(name):
    return name in TRANSPARENT or name.rsplit('::', 1)[-1] in _TRANSPARENT_TAIL


def strip(e):
    """see through transparent calls (deref, as_mut, Pin...), pin-project and variants"""
    while True:
        if e[0] == 'call' and is_transparent(e[1]) and e[2]:
            e = e[2][0]
            continue
        return e


def short(name):
    parts = name.split('::')
    return '::'.join(parts[-2:]) if len(parts) > 1 else name


def render(e, depth=0):
    if depth > 12:
        return '…'
    k = e[0]
    if k in ('arg', 'local'):
        return e[2]
    if k == 'field':
        b = e[1]
        if b[0] == 'call' and b[1].endswith('::project'):
            return render(b[2][0], depth + 1) + '.' + e[2] if b[2] else e[2]
        return render(e[1], depth + 1) + '.' + e[2]
    if k == 'variant':
        return render(e[1], depth + 1) + ' as ' + e[2]
    if k == 'index':
        return render(e[1], depth + 1) + '[]'
    if k == 'discr':
        return 'discr(' + render(e[1], depth + 1) + ')'
    if k == 'call':
        if is_transparent(e[1]) and e[2]:
            return render(e[2][0], depth + 1)
        return short(e[1]) + '(' + ', '.join(render(a, depth + 1) for a in e[2]) + ')'
    if k == 'agg':
        nm = e[2].split('::')[-1] if e[1] == 'adt' else e[1]
        return nm + '{' + ', '.join(render(a, depth + 1) for a in e[3]) + '}'
    if k == 'const':
        return e[1]
    if k == 'fn':
        return short(e[2])
    if k == 'bin':
        return '(%s %s %s)' % (render(e[2], depth + 1), e[1], render(e[3], depth + 1))
    if k == 'un':
        return '%s(%s)' % (e[1], render(e[2], depth + 1))
    return '?' + str(e[1] if len(e) > 1 else '')


def walk(e):
    """all sub-expressions, pre-order"""
    yield e
    k = e[0]
    if k in ('field', 'variant', 'index', 'discr'):
        yield from walk(e[1])
    elif k == 'call':
        for a in e[2]:
            yield from walk(a)
    elif k == 'agg':
        for a in e[3]:
            yield from walk(a)
    elif k == 'bin':
        yield from walk(e[2])
        yield from walk(e[3])
    elif k == 'un':
        yield from walk(e[2])


def access_path(e):
    """(root, [steps]) following fields/variants through transparent calls and
    cell dereferences (rc_deref / rc_deref_mut become the step '@').
    `Option::take`, `mem::take/replace` keep their receiver as the path with a
    leading step '!take'."""
    steps = []
    while True:
        e = strip(e)
        k = e[0]
        if k == 'field':
            b = strip(e[1])
            if b[0] == 'call' and b[1].endswith('::project') and b[2]:
                steps.append(e[2])
                e = b[2][0]
                continue
            steps.append(e[2])
            e = e[1]
        elif k == 'variant':
            steps.append('as ' + e[2])
            e = e[1]
        elif k == 'index':
            steps.append('[]')
            e = e[1]
        elif k == 'call' and e[1] in ('rc::RcDeref::rc_deref', 'rc::RcDerefMut::rc_deref_mut') and e[2]:
            steps.append('@')
            e = e[2][0]
        elif k == 'call' and e[1] in ('std::option::Option::unwrap', 'std::option::Option::expect', 'std::option::Option::unwrap_unchecked') and e[2]:
            steps.append('0')
            steps.append('as Some')
            e = e[2][0]
        elif k == 'call' and e[1] in ('std::iter::Iterator::next', 'std::iter::DoubleEndedIterator::next_back') and e[2]:
            steps.append('as Some')
            steps.append('[]')
            e = e[2][0]
        elif k == 'call' and e[1] in ('std::option::Option::take', 'std::mem::take') and e[2]:
            steps.append('!take')
            e = e[2][0]
        elif k == 'call' and e[2] and e[1].rsplit('::', 1)[-1] in ('pop', 'pop_front', 'pop_back', 'remove', 'swap_remove') and \
                e[1].startswith(('std::vec::Vec', 'std::collections::VecDeque', 'smallvec::SmallVec')):
            # an element moved out of a list: no longer in the list (like take() for a slot)
            steps.append('!take')
            steps.append('[]')
            e = e[2][0]
        elif k == 'call' and e[1] == 'std::iter::Iterator::flatten' and e[2]:
            # an element of flatten(I) is the payload of an element of I
            if steps and steps[-1] == '[]':
                steps.pop()
                steps.extend(['0', 'as Some', '[]'])
            e = e[2][0]
        else:
            break
    steps.reverse()
    return e, steps
