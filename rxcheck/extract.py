"""Fact extraction: runs rxlint over /repo's current working tree (DESIGN §1.1, §1.4, §7)."""
import fcntl
import hashlib
import os
import shutil
import subprocess
import sys
import time

VERIF = os.path.dirname(os.path.dirname(os.path.abspath(__file__)))
REPO = os.environ.get('RXCHECK_REPO', '/repo')
SCRATCH = os.path.join(VERIF, '.scratch')
DRIVER = os.path.join(VERIF, 'rxlint', 'target', 'release', 'rxlint')

CONFIGS = {
    'default': [],
    'all': ['--all-features'],
    'notimer': ['--no-default-features', '--features', 'futures-scheduler'],
}


def log(msg):
    sys.stderr.write('[rxcheck] %s\n' % msg)
    sys.stderr.flush()


def _sysroot():
    return subprocess.check_output(['rustc', '+nightly', '--print', 'sysroot'], text=True).strip()


def ensure_driver():
    src = os.path.join(VERIF, 'rxlint', 'src')
    newest = max(os.path.getmtime(os.path.join(src, f)) for f in os.listdir(src))
    if os.path.exists(DRIVER) and os.path.getmtime(DRIVER) >= newest:
        return
    log('building rxlint driver')
    env = dict(os.environ, CARGO_NET_OFFLINE='true')
    r = subprocess.run(['cargo', 'build', '--release', '--offline'], cwd=os.path.join(VERIF, 'rxlint'), env=env,
                       stdout=subprocess.PIPE, stderr=subprocess.STDOUT, text=True)
    if r.returncode != 0 or not os.path.exists(DRIVER):
        raise RuntimeError('cannot build rxlint driver:\n' + r.stdout[-4000:])


def tree_hash(root, extra=()):
    h = hashlib.sha256()
    files = []
    for dp, dn, fn in os.walk(root):
        dn[:] = sorted(d for d in dn if d not in ('target', '.git'))
        for f in sorted(fn):
            files.append(os.path.join(dp, f))
    for p in files:
        h.update(os.path.relpath(p, root).encode())
        h.update(b'\0')
        try:
            with open(p, 'rb') as fh:
                h.update(hashlib.sha256(fh.read()).digest())
        except OSError:
            h.update(b'?')
    for e in extra:
        h.update(str(e).encode())
    return h.hexdigest()[:24]


def _driver_id():
    with open(DRIVER, 'rb') as f:
        return hashlib.sha256(f.read()).hexdigest()[:16]


def _run_cargo(cwd, target, out_dir, crates, feature_args, wrapper_var, crate_fp_names):
    fp = os.path.join(target, 'debug', '.fingerprint')
    if os.path.isdir(fp):
        for d in os.listdir(fp):
            if any(d.startswith(n + '-') for n in crate_fp_names):
                shutil.rmtree(os.path.join(fp, d), ignore_errors=True)
    env = dict(os.environ)
    env.update({
        'LD_LIBRARY_PATH': _sysroot() + '/lib' + (':' + env['LD_LIBRARY_PATH'] if env.get('LD_LIBRARY_PATH') else ''),
        'RUSTFLAGS': '-Zmir-opt-level=0 -Awarnings -Cdebug-assertions=off',
        wrapper_var: DRIVER,
        'RXLINT_OUT': out_dir,
        'RXLINT_CRATES': ','.join(crates),
        'CARGO_TARGET_DIR': target,
        'CARGO_NET_OFFLINE': 'true',
        'CARGO_INCREMENTAL': '0',
    })
    env.pop('RUSTC_WRAPPER' if wrapper_var != 'RUSTC_WRAPPER' else 'RUSTC_WORKSPACE_WRAPPER', None)
    cmd = ['cargo', '+nightly', 'check', '--offline', '--lib'] + feature_args
    r = subprocess.run(cmd, cwd=cwd, env=env, stdout=subprocess.PIPE, stderr=subprocess.STDOUT, text=True)
    return r


def facts_path(config='default'):
    """extract (or reuse the cache for an identical tree) and return the fact file path"""
    ensure_driver()
    os.makedirs(SCRATCH, exist_ok=True)
    key = tree_hash(REPO, extra=(_driver_id(), config))
    cdir = os.path.join(SCRATCH, 'facts', key)
    out = os.path.join(cdir, 'facts.rxrust.json')
    if os.path.exists(out):
        return out
    lock = open(os.path.join(SCRATCH, 'lock.' + config), 'w')
    fcntl.flock(lock, fcntl.LOCK_EX)
    try:
        if os.path.exists(out):
            return out
        t0 = time.time()
        tmp = os.path.join(SCRATCH, 'facts', key + '.tmp.%d' % os.getpid())
        os.makedirs(tmp, exist_ok=True)
        target = os.path.join(SCRATCH, 'target-' + config)
        r = _run_cargo(REPO, target, tmp, ['rxrust'], CONFIGS[config], 'RUSTC_WORKSPACE_WRAPPER', ['rxrust'])
        produced = os.path.join(tmp, 'facts.rxrust.json')
        if r.returncode != 0 or not os.path.exists(produced):
            shutil.rmtree(tmp, ignore_errors=True)
            raise RuntimeError('fact extraction failed for config %s (cargo exit %s, fact file %s):\n%s' % (
                config, r.returncode, 'present' if os.path.exists(produced) else 'missing', r.stdout[-6000:]))
        os.makedirs(os.path.dirname(cdir), exist_ok=True)
        if os.path.exists(cdir):
            shutil.rmtree(cdir, ignore_errors=True)
        os.rename(tmp, cdir)
        log('extracted facts for config %s in %.1fs' % (config, time.time() - t0))
        _prune_cache(keep=cdir)
        return out
    finally:
        fcntl.flock(lock, fcntl.LOCK_UN)
        lock.close()


def _prune_cache(keep, max_entries=12):
    base = os.path.join(SCRATCH, 'facts')
    ents = [os.path.join(base, d) for d in os.listdir(base)]
    ents = [e for e in ents if os.path.isdir(e) and e != keep]
    ents.sort(key=os.path.getmtime)
    for e in ents[:-max_entries] if len(ents) > max_entries else []:
        shutil.rmtree(e, ignore_errors=True)


def control_facts_path():
    """facts of a scratch copy of /repo's current tree with /verif/fixtures/verif_controls.rs
    added as a private module (positive controls, DESIGN §6). Returns None when the control
    module does not compile against the edited tree (recorded, not a violation)."""
    ensure_driver()
    ctl_src = os.path.join(VERIF, 'fixtures', 'verif_controls.rs')
    with open(ctl_src, 'rb') as f:
        ctl_id = hashlib.sha256(f.read()).hexdigest()[:16]
    key = tree_hash(REPO, extra=(_driver_id(), 'control', ctl_id))
    cdir = os.path.join(SCRATCH, 'facts', 'control-' + key)
    out = os.path.join(cdir, 'facts.rxrust.json')
    if os.path.exists(out):
        return out
    if os.path.exists(os.path.join(cdir, 'FAILED')):
        return None
    os.makedirs(SCRATCH, exist_ok=True)
    lock = open(os.path.join(SCRATCH, 'lock.default'), 'w')
    fcntl.flock(lock, fcntl.LOCK_EX)
    try:
        if os.path.exists(out):
            return out
        t0 = time.time()
        copy = os.path.join(SCRATCH, 'ctlcopy')
        shutil.rmtree(copy, ignore_errors=True)
        os.makedirs(copy)
        for f in ('Cargo.toml', 'Cargo.lock', 'README.md'):
            if os.path.exists(os.path.join(REPO, f)):
                shutil.copyfile(os.path.join(REPO, f), os.path.join(copy, f))
        shutil.copytree(os.path.join(REPO, 'src'), os.path.join(copy, 'src'))
        shutil.copyfile(ctl_src, os.path.join(copy, 'src', 'verif_controls.rs'))
        with open(os.path.join(copy, 'src', 'lib.rs'), 'a') as f:
            f.write('\n#[allow(dead_code, unused, clippy::all)]\nmod verif_controls;\n')
        tmp = os.path.join(SCRATCH, 'facts', 'control-' + key + '.tmp.%d' % os.getpid())
        os.makedirs(tmp, exist_ok=True)
        target = os.path.join(SCRATCH, 'target-default')
        r = _run_cargo(copy, target, tmp, ['rxrust'], [], 'RUSTC_WORKSPACE_WRAPPER', ['rxrust'])
        produced = os.path.join(tmp, 'facts.rxrust.json')
        shutil.rmtree(copy, ignore_errors=True)
        if os.path.exists(cdir):
            shutil.rmtree(cdir, ignore_errors=True)
        if r.returncode != 0 or not os.path.exists(produced):
            os.rename(tmp, cdir)
            with open(os.path.join(cdir, 'FAILED'), 'w') as f:
                f.write(r.stdout[-8000:])
            log('control module does not compile against this tree (see %s/FAILED)' % cdir)
            return None
        os.rename(tmp, cdir)
        log('extracted control facts in %.1fs' % (time.time() - t0))
        return out
    finally:
        fcntl.flock(lock, fcntl.LOCK_UN)
        lock.close()
