"""A small abstract interpretation for bounded queues (used by C03.S7): proves that after next()
a container field Q holds at most N items, for every value N >= 0 of a bound field, assuming the bound
holds on entry. Abstract state: interval [lo, hi] for d = len(Q) - N (clamped to -3..3, None = unbounded)
and a flag 'Q is known to be non-empty'. pop_front on a possibly empty queue may leave it unchanged."""
from .core import explore, ret_states, sw_value, witness, interesting_default
from .expr import access_path, strip

LIM = 3


def _clamp(lo, hi):
    lo = None if lo is None or lo < -LIM else lo
    hi = None if hi is None or hi > LIM else hi
    return lo, hi


def _field(e):
    root, steps = access_path(e)
    f = [s for s in steps if not s.startswith(('@', '!', 'as ', '['))]
    return f[-1] if f and root[0] == 'arg' and root[1] == 1 else None


def check_bound(g, qfield, nfield):
    """returns None if `len(self.qfield) <= self.nfield` holds at every return, else (message, witness)"""
    lens = {}
    for n in g.nodes:
        if n['kind'] == 'call' and n['name'].rsplit('::', 1)[-1] == 'len' and n['args'] and _field(n['args'][0]) == qfield:
            lens[strip(n['value'])] = True

    def cmp_of(d):
        """(op, swapped) if discr is a comparison of len(Q) with N"""
        d = strip(d)
        neg = False
        while d[0] == 'un' and d[1] == 'Not':
            d = strip(d[2])
            neg = not neg
        if d[0] != 'bin':
            return None
        a, b = strip(d[2]), strip(d[3])
        if a in lens and _field(b) == nfield:
            return d[1], False, neg
        if b in lens and _field(a) == nfield:
            return d[1], True, neg
        return None

    def refine(lo, hi, op, truth):
        # constraints on d = len - N
        def meet(l2, h2):
            nl = l2 if lo is None else (lo if l2 is None else max(lo, l2))
            nh = h2 if hi is None else (hi if h2 is None else min(hi, h2))
            return nl, nh
        table = {
            ('Gt', True): (1, None), ('Gt', False): (None, 0), ('Ge', True): (0, None), ('Ge', False): (None, -1),
            ('Lt', True): (None, -1), ('Lt', False): (0, None), ('Le', True): (None, 0), ('Le', False): (1, None),
            ('Eq', True): (0, 0), ('Eq', False): (None, None), ('Ne', False): (0, 0), ('Ne', True): (None, None),
        }
        if (op, truth) not in table:
            return lo, hi
        return meet(*table[(op, truth)])

    FLIP = {'Gt': 'Lt', 'Lt': 'Gt', 'Ge': 'Le', 'Le': 'Ge', 'Eq': 'Eq', 'Ne': 'Ne'}

    def step(st, n, lab):
        lo, hi, nonempty = st
        d, v = sw_value(lab)
        if d is not None and v in (0, 1):
            c = cmp_of(d)
            if c:
                op, swapped, neg = c
                if swapped:
                    op = FLIP.get(op, op)
                truth = (v == 1) != neg
                lo, hi = refine(lo, hi, op, truth)
                if lo is not None and hi is not None and lo > hi:
                    return None  # infeasible
                if lo is not None and lo >= 1:
                    nonempty = True
        if n['kind'] == 'call' and n['args'] and _field(n['args'][0]) == qfield:
            tail = n['name'].rsplit('::', 1)[-1]
            if tail in ('push_back', 'push_front', 'push'):
                lo = None if lo is None else lo + 1
                hi = None if hi is None else hi + 1
                nonempty = True
            elif tail in ('pop_front', 'pop_back', 'pop'):
                if nonempty:
                    lo = None if lo is None else lo - 1
                    hi = None if hi is None else hi - 1
                else:
                    lo = None if lo is None else lo - 1   # may or may not have removed one
                nonempty = False
            elif tail in ('clear',):
                lo, hi, nonempty = None, 0, False
            elif tail in ('drain', 'truncate', 'retain', 'remove', 'insert', 'extend', 'append', 'resize', 'split_off'):
                lo, hi, nonempty = None, None, False
        lo, hi = _clamp(lo, hi)
        return (lo, hi, nonempty)

    # entry: the bound holds (d <= 0)
    reached, pred = explore(g, (None, 0, False), step)
    for nid, st in ret_states(g, reached):
        lo, hi, ne = st
        if hi is None or hi > 0:
            return ('after next() the queue `%s` can hold more than `%s` items (len - bound may reach %s): the bound is not re-established on this path '
                    '(note: a pop on an empty queue removes nothing, e.g. when the bound is 0)' % (qfield, nfield, '+inf' if hi is None else '+%d' % hi),
                    witness(g, pred, (nid, st), interesting_default))
    return None
