"""Decision-table check of an operator's next() against its definition (C03.S8).

The body of next() is explored path by path with a small abstract state:
  * d  = interval of (counter - bound) AT ENTRY, refined by every comparison of the counter with the bound
         met on the path (a comparison made after k increments constrains d_entry + k);
  * k  = net number of +1 / -1 updates of the counter on the path;
  * pred = which way the path went on the result of the user predicate (None, 0, 1);
  * flags = entry value of the bool fields the path branched on before writing them;
  * sets  = constants written to bool fields;
  * emit / emit_other / complete / empty (the downstream slot was found empty).
Each return yields one summary; the operator's definition is a predicate over summaries that must hold for
every summary (both directions: 'emits only if' and 'emits whenever'). Everything is decided on the graph;
nothing is executed."""
from .core import (explore, ret_states, sw_value, witness, interesting_default, down_method, mentions, const_bool, const_int,
                   recv_class, FN_CALLS)
from .expr import access_path, strip

LIM = 4
FLIP = {'Gt': 'Lt', 'Lt': 'Gt', 'Ge': 'Le', 'Le': 'Ge', 'Eq': 'Eq', 'Ne': 'Ne'}
REL = {
    ('Gt', True): (1, None), ('Gt', False): (None, 0), ('Ge', True): (0, None), ('Ge', False): (None, -1),
    ('Lt', True): (None, -1), ('Lt', False): (0, None), ('Le', True): (None, 0), ('Le', False): (1, None),
    ('Eq', True): (0, 0), ('Ne', False): (0, 0),
}


def _last_field(e):
    root, steps = access_path(e)
    f = [s for s in steps if not s.startswith(('@', '!', 'as ', '['))]
    return f[-1] if f and root[0] == 'arg' and root[1] == 1 else None


def _meet(lo, hi, l2, h2):
    nl = l2 if lo is None else (lo if l2 is None else max(lo, l2))
    nh = h2 if hi is None else (hi if h2 is None else min(hi, h2))
    return nl, nh


def _shift(v, k):
    return None if v is None else v - k


def summaries(g, counter=None, bound=None, bound_const=None, flag_fields=(), slot_classes=None, init_lo=None):
    """returns (list of (summary dict, reach key), pred map) for the returns of graph g"""
    def is_counter(e):
        return counter is not None and _last_field(e) == counter and strip(e)[0] == 'field'

    def is_bound(e):
        if bound is not None:
            return _last_field(e) == bound and strip(e)[0] == 'field'
        return bound_const is not None and const_int(e) == bound_const

    def lin(e, k, bd):
        """linear reading of an integer expression on this path: ('c', c) = counter-at-entry + c, ('b', c) = bound + c"""
        e = strip(e)
        if is_counter(e):
            return ('c', k)
        if bound is not None and is_bound(e):
            return ('b', 0)
        if bound is None and bound_const is not None and const_int(e) is not None:
            return ('b', const_int(e) - bound_const)
        if e[0] == 'local' and e[1] in bd and bd[e[1]][1] == 'n':
            return (bd[e[1]][2], bd[e[1]][3])
        if e[0] == 'bin' and e[1].startswith(('Add', 'Sub')):
            add = e[1].startswith('Add')
            a, cb = lin(e[2], k, bd), const_int(e[3])
            if a is not None and cb is not None:
                return (a[0], a[1] + (cb if add else -cb))
            if add:
                a, cb = lin(e[3], k, bd), const_int(e[2])
                if a is not None and cb is not None:
                    return (a[0], a[1] + cb)
            return None
        # the payload of counter.checked_sub(c) / checked_add(c)
        x = e
        seen_variant = False
        while x[0] in ('field', 'variant'):
            seen_variant = seen_variant or x[0] == 'variant'
            x = strip(x[1])
        if x is not e and seen_variant and x[0] == 'call' and x[1].rsplit('::', 1)[-1] in ('checked_sub', 'checked_add') and len(x[2]) == 2:
            a, cb = lin(x[2][0], k, bd), const_int(x[2][1])
            if a is not None and cb is not None:
                return (a[0], a[1] + (cb if x[1].endswith('checked_add') else -cb))
        return None

    def cmp_of(d, k=0, bd=None):
        """(op, negated, s): the branch tests `d_entry + s  op  0` where d = counter - bound"""
        bd = bd or {}
        d = strip(d)
        neg = False
        while d[0] == 'un' and d[1] == 'Not':
            d = strip(d[2])
            neg = not neg
        if d[0] == 'discr':
            # match counter.checked_sub(c) { Some(..) / None }: Some <=> counter >= c
            x = strip(d[1])
            if x[0] == 'call' and x[1].rsplit('::', 1)[-1] == 'checked_sub' and len(x[2]) == 2:
                a, b = lin(x[2][0], k, bd), lin(x[2][1], k, bd)
                if a and b and a[0] == 'c' and b[0] == 'b':
                    return 'Ge', neg, a[1] - b[1]
            return None
        if d[0] != 'bin' or d[1] not in FLIP:
            return None
        a, b = lin(d[2], k, bd), lin(d[3], k, bd)
        if a is None or b is None:
            return None
        if a[0] == 'c' and b[0] == 'b':
            return d[1], neg, a[1] - b[1]
        if a[0] == 'b' and b[0] == 'c':
            return FLIP[d[1]], neg, b[1] - a[1]
        return None

    def pred_call(e):
        """value of a call of a user closure kept in a field of self"""
        for x in _walk(e):
            if x[0] == 'call' and x[1] in FN_CALLS and x[2]:
                r, st = access_path(x[2][0])
                if r[0] == 'arg' and r[1] == 1 and st:
                    return x
        return None

    def step(st, n, lab):
        lo, hi, k, pred, flags, sets, emit, other, comp, empty, bad, pops, pushes, subs, calls, bools = st
        d, v = sw_value(lab)
        bdict = dict((b[0], b) for b in bools)
        # a branch on a boolean local that was assigned a constant / the predicate result / a mode flag on this path
        if d is not None and v in (0, 1):
            d0 = strip(d)
            par = 0
            while d0[0] == 'un' and d0[1] == 'Not':
                d0 = strip(d0[2])
                par ^= 1
            bkey = d0[1] if d0[0] == 'local' else (('C', d0[3]) if d0[0] == 'call' else None)
            if bkey is not None and bkey in dict((b[0], b) for b in bools):
                b = dict((b[0], b) for b in bools)[bkey]
                val = v ^ par
                if b[1] == 'c':
                    if b[2] != val:
                        return None
                    d = None
                elif b[1] == 'p':
                    pv = val ^ b[2]
                    if pred is not None and pred != pv:
                        return None
                    pred = pv
                    d = None
                elif b[1] == 'm':
                    op, neg, k0 = b[2], b[3], b[4]
                    truth = (val == 1) != neg
                    if (op, truth) in REL:
                        l2, h2 = REL[(op, truth)]
                        lo, hi = _meet(lo, hi, _shift(l2, k0), _shift(h2, k0))
                        if lo is not None and hi is not None and lo > hi:
                            return None
                    elif (op, truth) in (('Eq', False), ('Ne', True)):
                        p0 = -k0
                        if hi is not None and hi == p0:
                            hi = p0 - 1
                        if lo is not None and lo == p0:
                            lo = p0 + 1
                        if lo is not None and hi is not None and lo > hi:
                            return None
                    d = None
                elif b[1] == 'f':
                    fv = val ^ b[3]
                    f = b[2]
                    if f in dict(sets):
                        if dict(sets)[f] != fv:
                            return None
                    else:
                        prev = dict(flags).get(f)
                        if prev is not None and prev != fv:
                            return None
                        flags = tuple(sorted(set(flags) | {(f, fv)}))
                    d = None
        # a `match` directly on the counter (switch on its value) when the bound is a constant
        lv = lin(d, k, bdict) if (d is not None and bound_const is not None and strip(d)[0] in ('field', 'local')) else None
        if lv is not None and lv[0] == 'c':
            if isinstance(v, int):
                p0 = v - bound_const - lv[1]
                lo, hi = _meet(lo, hi, p0, p0)
            elif isinstance(v, tuple) and v and v[0] == 'not':
                for ex in v[1]:
                    p0 = ex - bound_const - lv[1]
                    if lo is not None and lo == p0:
                        lo = p0 + 1
                    if hi is not None and hi == p0:
                        hi = p0 - 1
            if lo is not None and hi is not None and lo > hi:
                return None
            d = None
        if d is not None and v in (0, 1):
            c = cmp_of(d, k, bdict)
            if c:
                op, neg, sft = c
                truth = (v == 1) != neg
                if (op, truth) in REL:
                    l2, h2 = REL[(op, truth)]
                    lo, hi = _meet(lo, hi, _shift(l2, sft), _shift(h2, sft))
                    if lo is not None and hi is not None and lo > hi:
                        return None
                elif (op, truth) in (('Eq', False), ('Ne', True)):
                    p = -sft   # d_now != 0  <=>  d_entry != -k : shrink the interval when the excluded point is an end point
                    if hi is not None and hi == p:
                        hi = p - 1
                    if lo is not None and lo == p:
                        lo = p + 1
                    if lo is not None and hi is not None and lo > hi:
                        return None
            else:
                dd = strip(d)
                negs = 0
                while dd[0] == 'un' and dd[1] == 'Not':
                    dd = strip(dd[2])
                    negs += 1
                val = v if negs % 2 == 0 else 1 - v
                f = _last_field(dd) if dd[0] == 'field' else None
                if f in flag_fields:
                    if f not in dict(sets):
                        prev = dict(flags).get(f)
                        if prev is not None and prev != val:
                            return None
                        flags = tuple(sorted(set(flags) | {(f, val)}))
                    elif dict(sets)[f] != val:
                        return None
                elif pred_call(dd) is not None and dd[0] != 'discr':
                    if pred is not None and pred != val:
                        return None
                    pred = val
                elif dd[0] == 'discr' and v == 0 and slot_classes and recv_class(dd[1]) in slot_classes:
                    empty = True
        kind = n['kind']
        if d is not None and v == 1:
            dd0 = strip(d)
            if dd0[0] == 'discr' and _is_pop(strip(dd0[1])):
                pops = min(pops + 1, 3)
        if kind == 'call' and not n['ctx'] and n['name'] in ('std::option::Option::unwrap', 'std::option::Option::expect') and n['args'] and _is_pop(strip(n['args'][0])):
            pops = min(pops + 1, 3)
        if kind == 'assign' and n['lhs'][0] == 'local':
            lid = n['lhs'][1]
            r0 = strip(n['rhs'])
            par = 0
            while r0[0] == 'un' and r0[1] == 'Not':
                r0 = strip(r0[2])
                par ^= 1
            nb = None
            cm = cmp_of(n['rhs'], k, bdict)
            ln = lin(n['rhs'], k, bdict)
            if cm:
                nb = (lid, 'm', cm[0], cm[1], cm[2])      # a comparison of the counter with the bound, evaluated here (shift cm[2])
            elif ln is not None:
                nb = (lid, 'n', ln[0], ln[1])            # a snapshot of the counter (or the bound) plus a constant
            elif const_bool(r0) is not None:
                nb = (lid, 'c', (1 if const_bool(r0) else 0) ^ par)
            elif r0[0] == 'call' and pred_call(r0) is not None:
                nb = (lid, 'p', par)
            elif r0[0] == 'field' and _last_field(r0) in flag_fields:
                nb = (lid, 'f', _last_field(r0), par)
            bools = tuple(sorted([b for b in bools if b[0] != lid] + ([nb] if nb else []), key=repr))
        if kind == 'exit' and n.get('value') and n['value'][0] == 'call' and n.get('body'):
            # the value an inlined helper returns: what its return slot holds on this path
            L = (n['ctx'] + ((n['fn'], n['bb'], n['body']),), 0)
            bd = dict((b[0], b) for b in bools)
            ck = ('C', n['value'][3])
            rest = [b for b in bools if b[0] != ck]
            if L in bd:
                rest.append((ck,) + bd[L][1:])
            bools = tuple(sorted(rest, key=repr))
        if kind == 'call' and not n['ctx'] and n.get('dest') and n['dest'][0] == 'local' and pred_call(n['value']) is not None and n['name'] in FN_CALLS:
            lid = n['dest'][1]
            bools = tuple(sorted([b for b in bools if b[0] != lid] + [(lid, 'p', 0)], key=repr))
        if kind == 'assign':
            f = _last_field(n['lhs'])
            if counter is not None and f == counter and strip(n['lhs'])[0] == 'field':
                r = strip(n['rhs'])
                dk = None
                ln = lin(r, k, bdict)
                if ln is not None and ln[0] == 'c' and abs(ln[1] - k) == 1:
                    dk = ln[1] - k
                else:
                    for x in _walk(r):
                        if x[0] == 'bin' and x[1].startswith(('Add', 'Sub')) and is_counter(x[2]) and const_int(x[3]) == 1:
                            dk = 1 if x[1].startswith('Add') else -1
                if dk is None:
                    bad = 'counter written by something other than +-1'
                else:
                    k += dk
            elif f in flag_fields and const_bool(n['rhs']) is not None:
                sets = tuple(sorted(set((a, b) for a, b in sets if a != f) | {(f, 1 if const_bool(n['rhs']) else 0)}))
        if kind == 'call' and n['args'] and not n['ctx']:
            tail = n['name'].rsplit('::', 1)[-1]
            r0, s0 = access_path(n['args'][0])
            if r0[0] == 'arg' and r0[1] == 1 and n['name'].startswith(('std::collections::VecDeque', 'std::vec::Vec', 'smallvec::')):
                if tail in ('pop_front', 'pop_back', 'pop'):
                    pass   # counted when the popped value is actually obtained (Some edge / unwrap), see below
                elif tail in ('push_back', 'push_front', 'push'):
                    pushes = min(pushes + 1, 3)
        if kind in ('call', 'enter') and n['name'] == 'observable::Observable::actual_subscribe' and not n['ctx']:
            subs = min(subs + 1, 3)
        if kind == 'call' and n['name'] in FN_CALLS and n.get('callee') and not n['ctx']:
            calls = min(calls + 1, 3)
        m = down_method(n)
        if m == 'next':
            a = n['args'][1] if len(n['args']) > 1 else ('unknown', '')
            if mentions(a, lambda x: x[0] == 'arg' and x[1] == 2) or _is_queue_head(a):
                emit += 1
            else:
                other = True
        elif m in ('complete', 'error'):
            comp = True
        k = max(-LIM, min(LIM, k))
        emit = min(emit, 3)
        lo = None if lo is None or lo < -LIM else lo
        hi = None if hi is None or hi > LIM else hi
        return (lo, hi, k, pred, flags, sets, emit, other, comp, empty, bad, pops, pushes, subs, calls, bools)

    init = (init_lo, None, 0, None, (), (), 0, False, False, False, None, 0, 0, 0, 0, ())
    reached, pred = explore(g, init, step)
    out = []
    for key in ret_states(g, reached):
        lo, hi, k, p, flags, sets, emit, other, comp, empty, bad, pops, pushes, subs, calls, _bools = key[1]
        out.append(({'pops': pops, 'pushes': pushes, 'subs': subs, 'calls': calls, 'lo': lo, 'hi': hi, 'k': k, 'pred': p, 'flags': dict(flags), 'sets': dict(sets), 'emit': emit, 'other': other,
                     'complete': comp, 'empty': empty, 'bad': bad}, key))
    return out, pred


def _is_pop(e):
    return e[0] == 'call' and e[1].rsplit('::', 1)[-1] in ('pop_front', 'pop_back', 'pop') and e[1].startswith(('std::collections::VecDeque', 'std::vec::Vec', 'smallvec::'))


def _is_queue_head(e):
    """an item released from the operator's own queue (pop_front().unwrap())"""
    return mentions(e, lambda x: x[0] == 'call' and x[1].rsplit('::', 1)[-1] in ('pop_front', 'pop_back', 'pop'))


def _walk(e):
    from .expr import walk
    return walk(e)


def le(v, c):
    return v is not None and v <= c


def ge(v, c):
    return v is not None and v >= c
