"""debug helper: python3 -m rxcheck.dump <facts.json> <label substring> [--noinline]"""
import sys
from .facts import Facts
from .graph import build
from .expr import render


def show(g, out=sys.stdout):
    for n in g.nodes:
        k = n['kind']
        if k == 'join' and len(n['succ']) == 1 and n['succ'][0][2] is None:
            pass
        d = ''
        if k in ('call', 'enter', 'exit'):
            d = '%s(%s)' % (n['name'], ', '.join(render(a) for a in n['args']))
            if n.get('body'):
                d += '  [body %s]' % n['body']
        elif k == 'assign':
            d = '%s = %s' % (render(n['lhs']), render(n['rhs']))
        elif k == 'drop':
            d = render(n['place'])
        elif k == 'switch':
            d = render(n['discr'])
        elif k == 'dead':
            d = n.get('why')
        succ = ' '.join('%s%d%s' % ('!' if kk == 'u' else '', m, ('[%s]' % (l[2],)) if l else '') for m, kk, l in n['succ'])
        out.write('%4d %-7s d%d %-18s %s -> %s\n' % (n['id'], k, len(n['ctx']), g.loc(n), d, succ))
    if g.incomplete:
        out.write('INCOMPLETE: %r\n' % (g.incomplete,))


if __name__ == '__main__':
    facts = Facts(sys.argv[1])
    pat = sys.argv[2]
    inl = '--noinline' not in sys.argv
    for k, fn in facts.fns.items():
        lab = facts.fn_label(fn)
        if pat in lab or pat in k:
            print('=====', k, '|', lab, '|', fn['span'])
            g = build(facts, k, inline=inl)
            show(g)
