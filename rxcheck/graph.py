"""Event graph of one function with intra-crate callees inlined (DESIGN §1.2).

A Graph is a list of nodes; every node is a dict with
  id, kind, fn (key of the body it comes from), ctx (tuple of inlined call
  sites), bb, sp (line, col, file), succ = [(node id, edge kind, label)]
edge kind: 'n' normal, 'u' unwind.  label: None or ('sw', discr_expr, value)
kinds: entry, ret, resume, join, switch, call, enter, exit, drop, assign,
       assert, yield, dead
"""
from .expr import walk, FnExprs, callee_name, subst, qualify_locals, mk_field, strip

MAX_DEPTH = 7

# leaf primitives that are never inlined (they are the vocabulary of the rules)
NO_INLINE = {
    'rc::RcDeref::rc_deref', 'rc::RcDerefMut::rc_deref_mut',
    'std::clone::Clone::clone', 'std::convert::From::from', 'std::default::Default::default',
}
NO_INLINE_PREFIX = ('rc::MutRc::own', 'rc::MutArc::own')

# callees that only store / wrap a closure argument without calling it: the closure becomes a stored
# task, analysed as a root of its own
STORES_CLOSURE = {
    'std::boxed::Box::new', 'std::boxed::Box::pin', 'std::rc::Rc::new', 'std::sync::Arc::new',
    'std::convert::From::from', 'std::convert::Into::into', 'std::mem::drop', 'std::mem::forget',
    'std::vec::Vec::push', 'std::collections::VecDeque::push_back', 'std::collections::VecDeque::push_front',
    'std::option::Option::replace', 'std::option::Option::insert', 'std::mem::replace',
}

FN_TRAITS = ('std::ops::FnOnce::call_once', 'std::ops::FnMut::call_mut', 'std::ops::Fn::call')

# closure parameter models for std combinators: name -> how the closure's
# first parameter relates to the receiver (args[0])
SOME_OF_RECV = {
    'std::option::Option::map_or', 'std::option::Option::map', 'std::option::Option::and_then',
    'std::option::Option::filter', 'std::option::Option::map_or_else', 'std::option::Option::is_some_and',
    'std::option::Option::is_none_or', 'std::option::Option::inspect',
}
ELEM_OF_RECV = {
    'std::iter::Iterator::for_each', 'std::iter::Iterator::all', 'std::iter::Iterator::any',
    'std::iter::Iterator::filter', 'std::iter::Iterator::map', 'std::iter::Iterator::find',
    'std::iter::Iterator::position', 'std::iter::Iterator::fold', 'std::iter::Iterator::filter_map',
    'std::iter::Iterator::try_for_each', 'std::iter::Iterator::count',
    'std::vec::Vec::retain', 'std::vec::Vec::retain_mut', 'smallvec::SmallVec::retain',
    'std::collections::VecDeque::retain',
}


# std combinators that call their closure argument at most once (FnOnce parameters)
ONCE = {
    'std::option::Option::map_or', 'std::option::Option::map', 'std::option::Option::and_then',
    'std::option::Option::filter', 'std::option::Option::map_or_else', 'std::option::Option::is_some_and',
    'std::option::Option::is_none_or', 'std::option::Option::inspect', 'std::option::Option::unwrap_or_else',
    'std::option::Option::or_else', 'std::option::Option::ok_or_else', 'std::option::Option::get_or_insert_with',
    'std::option::Option::take_if',
    'std::result::Result::map', 'std::result::Result::map_err', 'std::result::Result::and_then',
    'std::result::Result::unwrap_or_else', 'std::result::Result::or_else', 'std::result::Result::map_or',
    'std::collections::hash_map::Entry::or_insert_with', 'std::collections::hash_map::Entry::and_modify',
    'std::collections::hash_map::Entry::or_insert_with_key',
    'std::bool::then', 'futures::FutureExt::map', 'std::task::Poll::map',
}


class Graph:
    def __init__(self, facts, root_key):
        self.facts = facts
        self.root = root_key
        self.nodes = []
        self.incomplete = []
        self.entry = None
        self.rets = []
        self.unwinds = []
        self.via_of = {}

    def vias(self, n):
        """names of the std combinators whose closure arguments enclose node n (outermost first)"""
        return tuple(self.via_of.get(c) for c in n['ctx'] if self.via_of.get(c))

    def new(self, kind, fn, ctx, bb=None, sp=None, **kw):
        n = {'id': len(self.nodes), 'kind': kind, 'fn': fn, 'ctx': ctx, 'bb': bb, 'sp': sp, 'succ': []}
        n.update(kw)
        self.nodes.append(n)
        return n

    def edge(self, a, b, kind='n', label=None):
        a['succ'].append((b['id'], kind, label))

    # ---- queries ------------------------------------------------------
    def succs(self, nid, unwind=False):
        for (m, k, l) in self.nodes[nid]['succ']:
            if k == 'u' and not unwind:
                continue
            yield m, k, l

    def calls(self, name=None, pred=None):
        for n in self.nodes:
            if n['kind'] in ('call', 'enter'):
                if name is not None and n['name'] != name:
                    continue
                if pred is not None and not pred(n):
                    continue
                yield n

    def loc(self, n):
        sp = n.get('sp') or {}
        fn = self.facts.fns.get(n['fn'])
        f = sp.get('f') or (fn['file'] if fn else '?')
        return '%s:%s' % (f, sp.get('l', '?'))


_fx_cache = {}


def fx_of(facts, fn, snapshots=False):
    k = (id(facts), fn['key'], snapshots)
    r = _fx_cache.get(k)
    if r is None:
        r = FnExprs(facts, fn, snapshots)
        _fx_cache[k] = r
    return r


def _closure_def_of_type(facts, ti):
    t = facts.types[facts.strip_refs(ti)]
    if t['k'] in ('closure',):
        return t['d']
    return None


def _operand_type(op):
    if op['o'] in ('copy', 'move'):
        return op['pl']['t']
    return op.get('t')


def _two_valued(facts, fx, op):
    """is the switch operand a bool or the discriminant of a two-variant enum?"""
    if op['o'] not in ('copy', 'move'):
        return False
    pl = op['pl']
    t = facts.types[pl['t']]
    if t['s'] == 'bool':
        return True
    if pl['p']:
        return False
    ds = fx.defs.get(pl['l'], [])
    if len(ds) != 1 or ds[0][0] != 'rv' or ds[0][1]['r'] != 'discr':
        return False
    et = facts.types[facts.strip_refs(ds[0][1]['pl']['t'])]
    if et['k'] != 'adt':
        return False
    if et['p'] in ('std::option::Option', 'std::result::Result', 'std::task::Poll', 'std::ops::ControlFlow'):
        return True
    a = facts.adts.get(et['p'])
    return bool(a) and len(a['variants']) == 2


_default_cache = {}


def _default_body(facts, tr, meth):
    k = (id(facts), tr, meth)
    if k not in _default_cache:
        body = None
        t = facts.traits.get(tr)
        if t:
            for m in t['methods']:
                if m['n'] == meth and m.get('default') and m.get('key') in facts.fns:
                    overridden = any(any(f['n'] == meth for f in im.get('fns', [])) for im in facts.impls_of(tr))
                    if not overridden:
                        body = m['key']
        _default_cache[k] = body
    return _default_cache[k]


def build(facts, root_key, max_depth=MAX_DEPTH, inline=True, no_inline=(), defaults=False, forward=False, snapshots=False):
    """snapshots=True: user-named integer/bool locals computed from memory keep their identity (their assignment is a node) instead of
    being replaced by their defining expression at each use — for rules that interpret field reads at the point of use (tables.py)"""
    g = Graph(facts, root_key)
    g.defaults = defaults
    g.snapshots = snapshots
    fn = facts.fns[root_key]
    fx = fx_of(facts, fn, snapshots)
    amap = {}
    entry = g.new('entry', root_key, ())
    g.entry = entry['id']
    first, rets, unws = _inline(g, root_key, amap, (), 0, max_depth, inline, set(no_inline))
    g.edge(entry, g.nodes[first])
    for r in rets:
        n = g.new('ret', root_key, ())
        g.edge(g.nodes[r], n)
        g.rets.append(n['id'])
    if unws:
        n = g.new('resume', root_key, ())
        for u in unws:
            g.edge(g.nodes[u], n, 'u')
        g.unwinds.append(n['id'])
    if inline and forward:
        _forward_single_returns(g)
    return g


def _forward_single_returns(g):
    """an inlined helper whose return slot has exactly one definition (`fn done(&self) -> bool { self.flag }`, `a < b`, `!x`, a single
    call) is transparent: wherever the caller uses the value of that call, it sees the defining expression instead. Helpers with
    several return sites (match arms, short-circuit operators) stay opaque."""
    alias = {}
    by_ctx = {}
    g.opt_frames = {}
    for n in g.nodes:
        if n['kind'] == 'assign' and n['lhs'][0] == 'local' and isinstance(n['lhs'][1], tuple) and n['lhs'][1][1] == 0:
            by_ctx.setdefault(n['lhs'][1][0], []).append(('a', n))
        elif n['kind'] in ('call', 'exit') and n.get('dest') and n['dest'][0] == 'local' and isinstance(n['dest'][1], tuple) and n['dest'][1][1] == 0 and n.get('name') != '<closure>':
            by_ctx.setdefault(n['dest'][1][0], []).append(('c', n))
    for n in g.nodes:
        if n['kind'] != 'exit' or not n.get('body') or n.get('name') == '<closure>':
            continue
        v = n.get('value')
        if not v or v[0] != 'call':
            continue
        cctx = n['ctx'] + ((n['fn'], n['bb'], n['body']),)
        defs = by_ctx.get(cctx, [])
        if len(defs) > 1:
            # `fn pull(&mut self) -> Option<O>`: every return site is None, or (Some of) one and the same value taken out of a
            # slot -> for the caller the helper's value IS that take()
            takes = set()
            ok = True
            for kind, d in defs:
                e = strip(d['rhs'] if kind == 'a' else d['value'])
                if e[0] == 'agg' and e[2].endswith('Option::None'):
                    continue
                inner = [x for x in walk(e) if x[0] == 'call' and x[1] in ('std::option::Option::take', 'std::mem::take')]
                if inner and (e[0] == 'call' and e in inner or (e[0] == 'agg' and e[2].endswith('Option::Some'))):
                    takes.add(inner[0])
                else:
                    ok = False
            if ok and len(takes) == 1:
                alias[v[3]] = list(takes)[0]
                g.opt_frames[cctx] = list(takes)[0]
            continue
        if len(defs) != 1:
            continue
        kind, d = defs[0]
        e = d['rhs'] if kind == 'a' else d['value']
        if e[0] == 'agg' and e[1] == 'tuple' and not e[3]:
            continue      # unit
        alias[v[3]] = e
    # a closure handed to Option::and_then / Option::map with one return site: the combinator's value is what the closure returns
    for n in g.nodes:
        if n['kind'] != 'exit' or n.get('name') != '<closure>' or n.get('via') not in ('std::option::Option::and_then', 'std::option::Option::map'):
            continue
        cctx = n['ctx'] + ((n['fn'], n['bb'], n['body']),)
        defs = by_ctx.get(cctx, [])
        if len(defs) != 1:
            continue
        kind, d = defs[0]
        e = d['rhs'] if kind == 'a' else d['value']
        comb = [x for x in g.nodes if x['kind'] == 'call' and x['fn'] == n['fn'] and x['bb'] == n['bb'] and x['ctx'] == n['ctx'] and x['name'] == n['via'] and x.get('value')]
        if len(comb) != 1 or comb[0]['value'][0] != 'call':
            continue
        if n['via'].endswith('and_then'):
            alias[comb[0]['value'][3]] = e
        else:
            alias[comb[0]['value'][3]] = ('agg', 'adt', 'std::option::Option::Some', (e,), comb[0]['value'][3], ())
    if not alias:
        return

    def rw(e, depth=0):
        if not isinstance(e, tuple) or not e or depth > 12:
            return e
        k = e[0]
        if k == 'call':
            if e[3] in alias:
                return rw(alias[e[3]], depth + 1)
            return ('call', e[1], tuple(rw(a, depth) for a in e[2]), e[3])
        if k == 'field':
            return mk_field(rw(e[1], depth), e[2], e[3] if len(e) > 3 else None)
        if k == 'variant':
            return (k, rw(e[1], depth), e[2])
        if k in ('index', 'discr'):
            return (k, rw(e[1], depth))
        if k == 'agg':
            return ('agg', e[1], e[2], tuple(rw(a, depth) for a in e[3]), e[4], e[5])
        if k == 'bin':
            return ('bin', e[1], rw(e[2], depth), rw(e[3], depth))
        if k == 'un':
            return ('un', e[1], rw(e[2], depth))
        return e
    for n in g.nodes:
        if n['kind'] in ('enter', 'exit') and n.get('value') and n['value'][0] == 'call' and n['value'][3] in alias:
            pass        # the helper's own frame keeps its identity
        else:
            if n.get('value') is not None and n['kind'] == 'call':
                pass    # a call node's own value stays a call
        for f in ('lhs', 'rhs', 'discr', 'place', 'fnptr', 'cond'):
            if n.get(f) is not None:
                n[f] = rw(n[f])
        if n.get('args') is not None:
            n['args'] = [rw(a) for a in n['args']]
        if n.get('value') is not None and n['kind'] == 'call':
            v = n['value']
            if v[0] == 'call':
                n['value'] = ('call', v[1], tuple(rw(a) for a in v[2]), v[3])
        n['succ'] = [(m, k, (('sw', rw(lab[1]), lab[2]) if lab and lab[0] == 'sw' else lab)) for (m, k, lab) in n['succ']]


def _inline(g, key, amap, ctx, depth, max_depth, do_inline, no_inline):
    """returns (first node id, [ids of nodes that return], [ids of nodes that unwind out])"""
    facts = g.facts
    fn = facts.fns[key]
    fx = fx_of(facts, fn, getattr(g, 'snapshots', False))

    def tr(e):
        e = qualify_locals(e, ctx) if ctx else e
        return subst(e, amap) if amap else e

    blocks = fn['blocks']
    starts = [g.new('join', key, ctx, bb=i) for i in range(len(blocks))]
    rets, unws = [], []
    for bi, b in enumerate(blocks):
        cur = starts[bi]
        for si, s in enumerate(b['s']):
            if s['k'] == 'assign':
                pl = s['pl']
                lhs_local = pl['l']
                interesting = bool(pl['p']) or lhs_local == 0 or len(fx.defs.get(lhs_local, [])) > 1 or lhs_local in fx.partial or lhs_local in fx.kept
                if not interesting:
                    continue
                if pl['p']:
                    lhs = tr(fx.place(pl))
                else:
                    lhs = tr(('local', lhs_local, fx.names.get(lhs_local) or '_%d' % lhs_local)) if lhs_local > fx.argc or lhs_local == 0 else tr(fx.local(lhs_local))
                n = g.new('assign', key, ctx, bb=bi, sp=s['sp'], lhs=lhs, rhs=tr(fx.rvalue(s['rv'], (key, bi, si))), rv=s['rv'], lhs_ty=pl['t'])
                g.edge(cur, n)
                cur = n
            elif s['k'] == 'setdiscr':
                n = g.new('assign', key, ctx, bb=bi, sp=s['sp'], lhs=('discr', tr(fx.place(s['pl']))), rhs=('const', str(s['vi'])), rv=None, lhs_ty=None)
                g.edge(cur, n)
                cur = n
        t = b['t']
        k = t['k']
        sp = t.get('sp')
        if k == 'goto':
            g.edge(cur, starts[t['t']])
        elif k == 'switch':
            d = tr(fx.operand(t['d']))
            n = g.new('switch', key, ctx, bb=bi, sp=sp, discr=d)
            g.edge(cur, n)
            vals = [v for v, _ in t['v']]
            for v, tb in t['v']:
                g.edge(n, starts[tb], 'n', ('sw', d, v))
            other = ('not', tuple(vals))
            if len(vals) == 1 and vals[0] in (0, 1) and _two_valued(facts, fx, t['d']):
                other = 1 - vals[0]
            g.edge(n, starts[t['o']], 'n', ('sw', d, other))
        elif k == 'ret':
            rets.append(cur['id'])
        elif k in ('resume',):
            unws.append(cur['id'])
        elif k in ('unreachable', 'abort', 'cordrop', 'asm', 'tailcall'):
            n = g.new('dead', key, ctx, bb=bi, sp=sp, why=k)
            g.edge(cur, n)
        elif k == 'drop':
            n = g.new('drop', key, ctx, bb=bi, sp=sp, place=tr(fx.place(t['pl'])), ty=t['pl']['t'])
            g.edge(cur, n)
            g.edge(n, starts[t['t']])
            if t.get('u') is not None:
                g.edge(n, starts[t['u']], 'u')
        elif k == 'assert':
            n = g.new('assert', key, ctx, bb=bi, sp=sp, cond=tr(fx.operand(t['c'])), msg=t.get('m'))
            g.edge(cur, n)
            g.edge(n, starts[t['t']])
            if t.get('u') is not None:
                g.edge(n, starts[t['u']], 'u')
        elif k == 'yield':
            n = g.new('yield', key, ctx, bb=bi, sp=sp)
            g.edge(cur, n)
            g.edge(n, starts[t['t']])
        elif k == 'call':
            _call(g, fx, key, ctx, bi, t, cur, starts, unws, tr, depth, max_depth, do_inline, no_inline)
        else:
            n = g.new('dead', key, ctx, bb=bi, sp=sp, why=k)
            g.edge(cur, n)
    return starts[0]['id'], rets, unws


def _call(g, fx, key, ctx, bi, t, cur, starts, unws, tr, depth, max_depth, do_inline, no_inline):
    facts = g.facts
    f = t['f']
    sp = t.get('sp')
    args = [tr(fx.operand(a)) for a in t['a']]
    arg_tys = [_operand_type(a) for a in t['a']]
    callee = f.get('fn') if f['o'] == 'const' else None
    name = callee_name(callee) if callee else '<fnptr>'
    fnptr = None
    if callee is None:
        fnptr = tr(fx.operand(f))
    value = tr(fx.call_value(t, bi))
    dest = tr(fx.place(t['d']))
    target = starts[t['t']] if t.get('t') is not None else None
    uw = starts[t['u']] if t.get('u') is not None else None

    # which body (if any) does this call run?
    body_key = None
    rustcall = False
    if callee is not None:
        res = callee.get('res')
        if res and res.get('local') and res.get('k') in ('item', 'closure_once') and res.get('d') in facts.fns:
            body_key = res['d']
            if name in FN_TRAITS:
                rustcall = True
        elif name in FN_TRAITS and callee.get('a'):
            cd = _closure_def_of_type(facts, callee['a'][0])
            if cd and cd in facts.fns:
                body_key = cd
                rustcall = True
        elif getattr(g, 'defaults', False) and callee.get('tr') and callee.get('n'):
            # a provided (default) method of a trait of this crate that no impl overrides: the call runs the default body
            body_key = _default_body(facts, callee['tr'], callee['n'])
    elif fnptr is not None:
        p = strip(fnptr)
        if p[0] == 'fn' and p[1] in facts.fns:
            body_key = p[1]
    noinl = (name in NO_INLINE or name.startswith(NO_INLINE_PREFIX) or name in no_inline or (body_key in no_inline))
    common = dict(name=name, callee=callee, args=args, arg_tys=arg_tys, value=value, dest=dest, fnptr=fnptr, body=body_key)
    if body_key and do_inline and not noinl:
        site = (key, bi)
        if depth >= max_depth or any(c[2] == body_key for c in ctx):
            g.incomplete.append((key, bi, name, 'depth' if depth >= max_depth else 'recursion'))
            body_key_inl = None
        else:
            body_key_inl = body_key
        if body_key_inl:
            callee_fn = facts.fns[body_key_inl]
            amap = {}
            if rustcall:
                amap[1] = args[0] if args else ('unknown', 'env')
                tup = args[1] if len(args) > 1 else ('unknown', 'args')
                for i in range(callee_fn['argc'] - 1):
                    amap[2 + i] = mk_field(tup, str(i), i)
            else:
                for i, a in enumerate(args):
                    amap[i + 1] = a
            nctx = ctx + ((key, bi, body_key_inl),)
            enter = g.new('enter', key, ctx, bb=bi, sp=sp, **common)
            g.edge(cur, enter)
            first, rets, cunws = _inline(g, body_key_inl, amap, nctx, depth + 1, max_depth, do_inline, no_inline)
            g.edge(enter, g.nodes[first])
            ex = g.new('exit', key, ctx, bb=bi, sp=sp, **common)
            for r in rets:
                g.edge(g.nodes[r], ex)
            if target is not None:
                g.edge(ex, target)
            else:
                d = g.new('dead', key, ctx, bb=bi, sp=sp, why='diverges')
                g.edge(ex, d)
            for u in cunws:
                if uw is not None:
                    g.edge(g.nodes[u], uw, 'u')
                else:
                    unws.append(u)
            return
    n = g.new('call', key, ctx, bb=bi, sp=sp, **common)
    g.edge(cur, n)
    after = n
    # closures handed to a callee we do not see into: may run 0..n times there
    for ai, (a, aty) in enumerate(zip(args, arg_tys)):
        fnitem = False
        sa = strip(a)
        if sa[0] == 'fn' and sa[1] in facts.fns and ai > 0 and name.startswith(('std::iter::', 'std::option::Option::', 'std::result::Result::', 'std::vec::', 'std::slice::')):
            # a named function handed to a std combinator (`iter().all(slot_is_closed)`) runs there like a closure would
            cd = sa[1]
            fnitem = True
        elif aty is None:
            continue
        else:
            cd = _closure_def_of_type(facts, aty)
        if not cd or cd not in facts.fns or not do_inline or name in STORES_CLOSURE:
            continue
        if depth >= max_depth or any(c[2] == cd for c in ctx):
            g.incomplete.append((key, bi, name, 'closure depth'))
            continue
        cfn = facts.fns[cd]
        amap = {} if fnitem else {1: a}
        base = 1 if fnitem else 2
        recv = args[0] if args else ('unknown', 'recv')
        for i in range(cfn['argc'] - (0 if fnitem else 1)):
            if i == 0 and name in SOME_OF_RECV and ai != 0:
                amap[base + i] = ('field', ('variant', recv, 'Some'), '0', 0)
            elif name in ELEM_OF_RECV and ai != 0:
                amap[base + i] = ('index', recv)
            else:
                amap[base + i] = ('unknown', 'cbarg%d of %s' % (i, name))
        nctx = ctx + ((key, bi, cd),)
        g.via_of[(key, bi, cd)] = name
        j = g.new('join', key, ctx, bb=bi, sp=sp)
        g.edge(after, j)
        enter = g.new('enter', key, ctx, bb=bi, sp=sp, name='<closure>', callee=None, args=[a], arg_tys=[aty], value=('unknown', 'closure result'), dest=None, fnptr=None, body=cd, via=name)
        g.edge(j, enter)
        first, rets, cunws = _inline(g, cd, amap, nctx, depth + 1, max_depth, do_inline, no_inline)
        g.edge(enter, g.nodes[first])
        ex = g.new('exit', key, ctx, bb=bi, sp=sp, name='<closure>', callee=None, args=[a], arg_tys=[aty], value=('unknown', 'closure result'), dest=None, fnptr=None, body=cd, via=name)
        for r in rets:
            g.edge(g.nodes[r], ex)
        if name in ONCE:
            j2 = g.new('join', key, ctx, bb=bi, sp=sp)
            g.edge(j, j2)      # not called
            g.edge(ex, j2)     # called once
            j = j2
        else:
            g.edge(ex, j)  # may run again
        for u in cunws:
            if uw is not None:
                g.edge(g.nodes[u], uw, 'u')
            else:
                unws.append(u)
        after = j
    if target is not None:
        g.edge(after, target)
    if uw is not None:
        g.edge(n, uw, 'u')
    elif callee is not None or fnptr is not None:
        # a call without cleanup block still may unwind out of the function
        unws.append(n['id'])
