"""Shared analyses used by the per-property rule sets (DESIGN §1.2, §2)."""
from collections import deque
from .graph import build
from .expr import render, access_path, strip, walk

OBS = 'observer::Observer::'
OBS_METHODS = {
    OBS + 'next': 'next', OBS + 'error': 'error', OBS + 'complete': 'complete', OBS + 'is_finished': 'is_finished',
    'observer::BoxObserverInner::box_next': 'next', 'observer::BoxObserverInner::box_error': 'error',
    'observer::BoxObserverInner::box_complete': 'complete', 'observer::BoxObserverInner::box_is_finished': 'is_finished',
    'subscriber::Publisher::p_next': 'next', 'subscriber::Publisher::p_error': 'error',
    'subscriber::Publisher::p_complete': 'complete',
}
ACQUIRE = {'rc::RcDeref::rc_deref': 'R', 'rc::RcDerefMut::rc_deref_mut': 'W'}
SUBSCRIBE = 'observable::Observable::actual_subscribe'
SCHEDULE = 'scheduler::Scheduler::schedule'
UNSUB = 'subscription::Subscription::unsubscribe'
IS_CLOSED = 'subscription::Subscription::is_closed'
UNSUB_NAMES = {UNSUB, 'subscription::BoxSubscriptionInner::boxed_unsubscribe', 'subscriber::Publisher::p_unsubscribe'}
IS_CLOSED_NAMES = {IS_CLOSED, 'subscription::BoxSubscriptionInner::boxed_is_closed', 'subscriber::Publisher::p_is_closed'}
TAKE = {'std::option::Option::take', 'std::mem::take', 'std::mem::replace'}
FN_CALLS = ('std::ops::FnOnce::call_once', 'std::ops::FnMut::call_mut', 'std::ops::Fn::call')


class Finding:
    """one rule instance (obligation) and its verdict"""

    def __init__(self, prop, rule, key, ok, msg='', loc='', witness=None, config='default', control=False):
        self.prop = prop
        self.rule = rule
        self.key = key          # stable: rule|impl/fn label|receiver... (no line numbers)
        self.ok = ok
        self.msg = msg
        self.loc = loc
        self.witness = witness or []
        self.config = config
        self.control = control

    def full_key(self):
        return '%s|%s' % (self.rule, self.key)

    def to_json(self):
        return {'property': self.prop, 'rule': self.rule, 'key': self.full_key(), 'ok': self.ok, 'msg': self.msg,
                'loc': self.loc, 'witness': self.witness, 'config': self.config}


class Incomplete(Exception):
    """the engine could not analyse something it must be able to analyse (fail closed)"""


class Cx:
    """analysis context for one fact file"""

    def __init__(self, facts, config='default'):
        self.facts = facts
        self.config = config
        self._graphs = {}
        # the private object-safe twin of Subscription (BoxSubscriptionInner today), whatever it and its methods are called: a trait
        # of subscription.rs with a `Box<Self> -> ()` method (unsubscribe) and a `&Self -> bool` method (is_closed)
        try:
            for p_, t_ in facts.traits.items():
                if not p_.startswith('subscription::') or p_ == 'subscription::Subscription':
                    continue
                for m_ in t_.get('methods', []):
                    ins = [facts.tystr(i_) for i_ in m_.get('inputs', [])]
                    out = facts.tystr(m_['output']) if m_.get('output') is not None else None
                    if len(ins) == 1 and ins[0].startswith('std::boxed::Box<') and out == '()':
                        UNSUB_NAMES.add('%s::%s' % (p_, m_['n']))
                    elif len(ins) == 1 and ins[0] == '&Self' and out == 'bool':
                        IS_CLOSED_NAMES.add('%s::%s' % (p_, m_['n']))
        except Exception:
            pass
        # ... likewise the object-safe twin of Observer (BoxObserverInner: box_next / box_error / box_complete / box_is_finished) and the
        # private helpers of scheduler.rs that the timing rules name (new_timer: Duration -> boxed future; remote_handle: future ->
        # (wrapped future, TaskHandle)). A renamed one is presented to the rules under the tabled name.
        from . import expr as _expr
        _expr.NAME_ALIASES.clear()
        try:
            if 'observer::BoxObserverInner' not in facts.traits:
                for p_, t_ in facts.traits.items():
                    if not p_.startswith('observer::') or p_ == 'observer::Observer':
                        continue
                    roles_ = {}
                    for m_ in t_.get('methods', []):
                        ins = [facts.tystr(i_) for i_ in m_.get('inputs', [])]
                        out = facts.tystr(m_['output']) if m_.get('output') is not None else None
                        if len(ins) == 2 and ins[0] == '&mut Self':
                            roles_['box_next'] = m_['n']
                        elif len(ins) == 2 and ins[0].startswith('std::boxed::Box<'):
                            roles_['box_error'] = m_['n']
                        elif len(ins) == 1 and ins[0].startswith('std::boxed::Box<'):
                            roles_['box_complete'] = m_['n']
                        elif len(ins) == 1 and ins[0] == '&Self' and out == 'bool':
                            roles_['box_is_finished'] = m_['n']
                    if len(roles_) == 4:
                        for canon_, actual_ in roles_.items():
                            _expr.NAME_ALIASES['%s::%s' % (p_, actual_)] = 'observer::BoxObserverInner::' + canon_
                        facts.traits['observer::BoxObserverInner'] = dict(t_, methods=[dict(m_, n={v: k for k, v in roles_.items()}.get(m_['n'], m_['n'])) for m_ in t_.get('methods', [])])
            by_path = {f_['path']: f_ for f_ in facts.fns.values() if f_['kind'] == 'fn'}
            if 'scheduler::new_timer' not in by_path:
                c_ = [f_ for f_ in by_path.values() if f_.get('file', '').endswith('scheduler.rs') and len(f_.get('inputs', [])) == 1
                      and facts.tystr(f_['inputs'][0]) == 'std::time::Duration' and 'Future' in facts.tystr(f_.get('output', 0) or 0)]
                if len(c_) == 1:
                    _expr.NAME_ALIASES[c_[0]['path']] = 'scheduler::new_timer'
                    c_[0]['name'] = 'new_timer'
            if 'scheduler::remote_handle' not in by_path:
                c_ = [f_ for f_ in by_path.values() if f_.get('file', '').endswith('scheduler.rs') and len(f_.get('inputs', [])) == 1
                      and 'TaskHandle' in facts.tystr(f_.get('output', 0) or 0) and facts.ty(f_.get('output', 0) or 0).get('k') == 'tuple']
                if len(c_) == 1:
                    _expr.NAME_ALIASES[c_[0]['path']] = 'scheduler::remote_handle'
                    c_[0]['name'] = 'remote_handle'
        except Exception:
            pass

    def graph(self, key, **kw):
        k = (key, tuple(sorted(kw.items())))
        g = self._graphs.get(k)
        if g is None:
            g = build(self.facts, key, **kw)
            self._graphs[k] = g
        return g

    def label(self, fn):
        return self.facts.fn_label(fn)

    # ---- impl enumeration -------------------------------------------
    def observer_impls(self):
        return sorted(self.facts.impls_of('observer::Observer'), key=lambda i: (i['file'], i['line'], i['self_s']))

    def method(self, impl, name):
        return self.facts.impl_fn(impl, name)


# ----------------------------------------------------------------------
def down_method(n):
    """'next'/'error'/'complete'/'is_finished' if node is a downstream (unresolved) observer call"""
    if n['kind'] != 'call' or n.get('body'):
        return None   # (a call resolved to a body in this crate is not a downstream call)
    return OBS_METHODS.get(n['name'])


def node_desc(g, n):
    k = n['kind']
    if k in ('call', 'enter', 'exit'):
        s = '%s(%s)' % (n['name'], ', '.join(render(a) for a in n['args']))
    elif k == 'assign':
        s = '%s = %s' % (render(n['lhs']), render(n['rhs']))
    elif k == 'drop':
        s = 'drop ' + render(n['place'])
    elif k == 'switch':
        s = 'switch ' + render(n['discr'])
    else:
        s = k
    return '%s %s' % (g.loc(n), s)


def explore(g, init, step, unwind=False, start=None):
    """Product of the event graph with a rule automaton.
    step(state, node, label) -> new state, or None to prune the path.
    `label` is the label of the edge by which `node` is entered.
    Returns (reached, pred): reached = set of (node id, state)."""
    start = g.entry if start is None else start
    s0 = step(init, g.nodes[start], None)
    reached = set()
    pred = {}
    if s0 is None:
        return reached, pred
    q = deque([(start, s0)])
    reached.add((start, s0))
    while q:
        nid, st = q.popleft()
        for (m, k, lab) in g.nodes[nid]['succ']:
            if k == 'u' and not unwind:
                continue
            ns = step(st, g.nodes[m], lab)
            if ns is None:
                continue
            key = (m, ns)
            if key not in reached:
                reached.add(key)
                pred[key] = (nid, st)
                q.append(key)
    return reached, pred


def explore_r(g, init, step, **kw):
    """explore() that also remembers, for inlined helpers returning `Option<taken value>` (see graph._forward_single_returns), which
    return site the path went through, and prunes the caller's `if let Some(..) = helper()` edges that contradict it"""
    frames = getattr(g, 'opt_frames', {}) or {}
    if not frames:
        return explore(g, init, step, **kw)
    exprs = {strip(v): k for k, v in frames.items()}

    def wstep(st, n, lab):
        inner, rmap = st
        d, v = sw_value(lab)
        if d is not None and v in (0, 1):
            dd = strip(d)
            if dd[0] == 'discr' and strip(dd[1]) in exprs:
                k = exprs[strip(dd[1])]
                got = dict(rmap).get(k)
                if got == 'none' and v == 1:
                    return None
                if got == 'some' and v == 0:
                    return None
        ns = step(inner, n, lab)
        if ns is None:
            return None
        if n['kind'] == 'assign' and n['lhs'][0] == 'local' and isinstance(n['lhs'][1], tuple) and n['lhs'][1][1] == 0 and n['lhs'][1][0] in frames:
            r = strip(n['rhs'])
            val = 'none' if (r[0] == 'agg' and r[2].endswith('Option::None')) else 'some'
            rmap = tuple(sorted([x for x in rmap if x[0] != n['lhs'][1][0]] + [(n['lhs'][1][0], val)], key=repr))
        return (ns, rmap)
    reached, pred = explore(g, (init, ()), wstep, **kw)
    return reached, pred


def witness(g, pred, key, interesting=None, limit=40):
    """reconstruct one path (list of node descriptions) ending at key"""
    path = []
    cur = key
    while cur is not None:
        n = g.nodes[cur[0]]
        if interesting is None or interesting(n):
            path.append(node_desc(g, n))
        cur = pred.get(cur)
    path.reverse()
    if len(path) > limit:
        path = path[:limit // 2] + ['…'] + path[-limit // 2:]
    return path


def interesting_default(n):
    return n['kind'] in ('call', 'enter', 'assign', 'switch', 'ret', 'drop')


def reachable(g, start_ids, unwind=False, stop=None):
    seen = set(start_ids)
    q = deque(start_ids)
    while q:
        nid = q.popleft()
        if stop is not None and stop(g.nodes[nid]) and nid not in start_ids:
            continue
        for (m, k, lab) in g.nodes[nid]['succ']:
            if k == 'u' and not unwind:
                continue
            if m not in seen:
                seen.add(m)
                q.append(m)
    return seen


def ret_states(g, reached):
    """states with which the root function returns normally"""
    rs = set(g.rets)
    return [(nid, st) for (nid, st) in reached if nid in rs]


def const_bool(e):
    e = strip(e)
    if e[0] == 'const' and e[1] in ('true', 'false', 'const true', 'const false'):
        return e[1].endswith('true')
    return None


def const_int(e):
    """integer value of a constant expression, or None"""
    import re as _re
    e = strip(e)
    if e[0] != 'const':
        return None
    m = _re.match(r'^(?:const )?(-?\d+)(?:_[iu](?:8|16|32|64|128|size))?$', e[1])
    return int(m.group(1)) if m else None


def sw_value(label):
    """(discr expr, value) of a switch edge, value int or ('not', (...))"""
    if label and label[0] == 'sw':
        return label[1], label[2]
    return None, None


def mentions(e, pred):
    return any(pred(x) for x in walk(e))


def path_str(e):
    root, steps = access_path(e)
    r = render(root)
    return r + ''.join(('.' + s) if not s.startswith(('@', '!', '[', 'as ')) else ('<' + s + '>') for s in steps)


# ----------------------------------------------------------------------
# LANG template
from . import lang as _lang


def recv_class(e):
    """class of a receiver/slot expression: the self-rooted field path up to the first cell
    dereference / take / variant step, e.g. 'self.observer'"""
    root, steps = access_path(e)
    pre = []
    for s in steps:
        if s in ('@', '!take', '[]') or s.startswith('as '):
            break
        pre.append(s)
    return '.'.join([render(root)] + pre)


def down_token(n):
    m = down_method(n)
    if m in ('next', 'error', 'complete'):
        return (m,)
    return None


def slot_classes(g, event_of=down_token):
    cl = set()
    for n in g.nodes:
        if n['kind'] == 'call' and event_of(n) and n['args']:
            cl.add(recv_class(n['args'][0]))
    return cl


def lang_check(g, spec, event_of=down_token, exact=True, empty_ok=True, classes=None, start=None):
    """All event words along non-unwind paths from entry to a return must be in L(spec)
    (prefix-closed check while walking, full membership at return when `exact`).
    With empty_ok a path that took the None edge of a switch on a downstream slot (or on a value
    just take()n out of one) may end early: the slot was already empty.
    Returns None when the rule holds, else (message, witness path)."""
    r0 = _lang.parse(spec)
    if classes is None:
        classes = slot_classes(g, event_of)

    def step(st, n, lab):
        if st[0] == 'bad':
            return None
        r, empty = st[1], st[2]
        d, v = sw_value(lab)
        if d is not None and v == 0 and empty_ok:
            dd = strip(d)
            if dd[0] == 'discr':
                root, steps = access_path(dd[1])
                if '!take' in steps or recv_class(dd[1]) in classes:
                    empty = True
        if n['kind'] in ('call', 'enter', 'assign', 'drop'):
            toks = event_of(n)
            if toks:
                for t in toks:
                    r2 = _lang.deriv(r, t)
                    if r2 == _lang.NULL:
                        return ('bad', t, _lang.show(r))
                    r = r2
        return ('ok', r, empty)

    reached, pred = explore(g, ('ok', r0, False), step, start=start)
    for key in reached:
        nid, st = key
        if st[0] == 'bad':
            return ("event '%s' is not allowed here (spec '%s', remaining '%s')" % (st[1], spec, st[2]),
                    witness(g, pred, key, interesting_default))
    if exact:
        for nid, st in ret_states(g, reached):
            if st[0] == 'ok' and not _lang.nullable(st[1]) and not st[2]:
                return ("a path returns with the word incomplete: still expected '%s' (spec '%s')" % (_lang.show(st[1]), spec),
                        witness(g, pred, (nid, st), interesting_default))
    return None


# ----------------------------------------------------------------------
# scheduled tasks
def sched_task_fn(cx, n):
    """for a Scheduler::schedule call node: (constructor name, task fn key or None, task args expr)"""
    if n['kind'] not in ('call', 'enter') or n['name'] != SCHEDULE or len(n['args']) < 2:
        return None
    t = strip(n['args'][1])
    if t[0] == 'call' and t[1].startswith('scheduler::') and t[1].endswith('::new'):
        ctor = t[1]
        fnarg = None
        for a in t[2]:
            a = strip(a)
            if a[0] == 'fn':
                fnarg = a[1]
        return ctor, fnarg, t[2]
    # the task may be built by a private helper: look for the task constructor inside it
    if t[0] == 'call':
        for k, f in cx.facts.fns.items():
            if callee_path_matches(f, t[1]):
                hg = cx.graph(k)
                for x in hg.nodes:
                    if x['kind'] in ('call', 'enter') and x['name'].startswith('scheduler::') and x['name'].endswith('::new'):
                        for a in x['args']:
                            a = strip(a)
                            if a[0] == 'fn':
                                return x['name'], a[1], tuple(x['args'])
    return ('?', None, ())


def callee_path_matches(fn, name):
    """does the normalised callee name `name` denote local function `fn`?"""
    from .expr import norm_path
    return fn['kind'] in ('fn', 'assoc_fn') and norm_path(fn['path']) == name


def task_tokens(cx, n):
    """Down tokens a scheduled task will deliver, as one composite event ('sched:next', ...)"""
    info = sched_task_fn(cx, n)
    if not info or not info[1] or info[1] not in cx.facts.fns:
        return None
    g = cx.graph(info[1])
    ms = sorted({down_method(x) for x in g.nodes if down_method(x) in ('next', 'error', 'complete')})
    return tuple(ms)


def down_or_sched_token(cx):
    def ev(n):
        t = down_token(n)
        if t:
            return t
        if n['kind'] in ('call', 'enter') and n['name'] == SCHEDULE:
            return task_tokens(cx, n)
        return None
    return ev


# ----------------------------------------------------------------------
# SCOPE template: lock scopes from rc_deref / rc_deref_mut guards
def guard_of(n):
    """(guard value expr, cell class, kind R/W) if node acquires a cell guard"""
    if n['kind'] == 'call' and n['name'] in ACQUIRE and n['args']:
        return n['value'], recv_class(n['args'][0]), ACQUIRE[n['name']]
    return None


def lock_scopes(g, unwind=False):
    """may-held analysis: node id -> set of (guard value, cell class, kind) live when the node executes.
    A guard is released by the Drop of the local holding it (MIR has the explicit drop, also for
    temporaries living to the end of an `if let`)."""
    guards = {}
    for n in g.nodes:
        gd = guard_of(n)
        if gd:
            guards[strip(gd[0])] = gd
    held_at = {n['id']: set() for n in g.nodes}
    work = deque([(g.entry, frozenset())])
    seen = set()
    while work:
        nid, held = work.popleft()
        if (nid, held) in seen:
            continue
        seen.add((nid, held))
        n = g.nodes[nid]
        held_at[nid] |= held
        out = held
        gd = guard_of(n)
        if gd:
            out = held | {gd}
        elif n['kind'] == 'drop':
            p = strip(n['place'])
            if p in guards:
                out = frozenset(x for x in held if strip(x[0]) != p)
        elif n['kind'] in ('call', 'enter') and n['name'] == 'std::mem::drop' and n['args']:
            p = strip(n['args'][0])
            if p in guards:
                out = frozenset(x for x in held if strip(x[0]) != p)
        for (m, k, lab) in n['succ']:
            if k == 'u' and not unwind:
                continue
            work.append((m, out))
    return held_at


# ----------------------------------------------------------------------
# queue discipline (shared by C03 take_last/skip_last, C04 zip, C05 merge_all)
_INS = {'push_back', 'push_front', 'push'}
_REM = {'pop_back', 'pop_front', 'pop', 'remove', 'swap_remove', 'drain'}


def queue_fields(cx):
    """{(file, field): {method tail: [node desc]}} for every self-rooted container field that is both
    filled and emptied with queue/stack methods somewhere in the crate"""
    F = cx.facts
    out = {}
    for fn in F.fns.values():
        if fn['kind'] in ('coroutine',):
            continue
        g = cx.graph(fn['key'], inline=False)
        for n in g.nodes:
            if n['kind'] != 'call' or not n['args']:
                continue
            tail = n['name'].rsplit('::', 1)[-1]
            if tail not in _INS and tail not in _REM:
                continue
            if not n['name'].startswith(('std::collections::VecDeque', 'std::vec::Vec', 'smallvec::SmallVec')):
                continue
            root, steps = access_path(n['args'][0])
            fields = [x for x in steps if not x.startswith(('@', '!', 'as ', '['))]
            if not fields:
                continue
            out.setdefault((fn['file'], fields[-1]), {}).setdefault(tail, []).append('%s %s' % (g.loc(n), n['name']))
    return {k: v for k, v in out.items() if (set(v) & _INS) and (set(v) & _REM)}


def fifo_findings(cx, prop, rule, files):
    """a container that is filled and emptied must be used first-in-first-out"""
    res = []
    for (file, field), ms in sorted(queue_fields(cx).items()):
        if file not in files and not (cx.control and file.endswith('verif_controls.rs')):
            continue
        if cx.control and not file.endswith('verif_controls.rs'):
            continue
        names = set(ms)
        lifo = None
        for a, b in (('push_back', 'pop_back'), ('push_front', 'pop_front'), ('push', 'pop')):
            if a in names and b in names:
                lifo = (a, b)
        key = '%s field `%s`' % (file, field)
        if lifo:
            res.append(Finding(prop, rule, key, False,
                               'the queue is filled with %s and emptied with %s (last-in-first-out): items / waiting subscriptions leave in the reverse of their arrival order' % lifo,
                               ms[lifo[1]][0].split(' ')[0], ms[lifo[0]][:1] + ms[lifo[1]][:1]))
        else:
            res.append(Finding(prop, rule, key, True, 'first-in-first-out (%s)' % ', '.join(sorted(names)), file))
    return res


def own_fnptr_call(n):
    """a call through a function pointer that is kept in the value itself (`(self.task)(..)`, possibly reached through a pin
    projection or a local copy of the field) — as opposed to a pointer obtained elsewhere (a global such as NEW_TIMER_FN)"""
    if n['kind'] != 'call' or n['name'] != '<fnptr>':
        return False
    v = n.get('value')
    if not v or v[0] != 'call' or not v[2]:
        return False
    root, steps = access_path(v[2][0])
    return root[0] == 'arg' and root[1] == 1
