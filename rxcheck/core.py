"""Shared analyses used by the per-property rule sets (DESIGN §1.2, §2)."""
from collections import deque
from .graph import build
from .expr import render, access_path, strip, walk

OBS = 'observer::Observer::'
OBS_METHODS = {
    OBS + 'next': 'next', OBS + 'error': 'error', OBS + 'complete': 'complete', OBS + 'is_finished': 'is_finished',
    'observer::BoxObserverInner::box_next': 'next', 'observer::BoxObserverInner::box_error': 'error',
    'observer::BoxObserverInner::box_complete': 'complete', 'observer::BoxObserverInner::box_is_finished': 'is_finished',
    'subscriber::Publisher::p_next': 'next', 'subscriber::Publisher::p_error': 'error',
    'subscriber::Publisher::p_complete': 'complete',
}
ACQUIRE = {'rc::RcDeref::rc_deref': 'R', 'rc::RcDerefMut::rc_deref_mut': 'W'}
SUBSCRIBE = 'observable::Observable::actual_subscribe'
SCHEDULE = 'scheduler::Scheduler::schedule'
UNSUB = 'subscription::Subscription::unsubscribe'
IS_CLOSED = 'subscription::Subscription::is_closed'
TAKE = {'std::option::Option::take', 'std::mem::take', 'std::mem::replace'}
FN_CALLS = ('std::ops::FnOnce::call_once', 'std::ops::FnMut::call_mut', 'std::ops::Fn::call')


class Finding:
    """one rule instance (obligation) and its verdict"""

    def __init__(self, prop, rule, key, ok, msg='', loc='', witness=None, config='default', control=False):
        self.prop = prop
        self.rule = rule
        self.key = key          # stable: rule|impl/fn label|receiver... (no line numbers)
        self.ok = ok
        self.msg = msg
        self.loc = loc
        self.witness = witness or []
        self.config = config
        self.control = control

    def full_key(self):
        return '%s|%s' % (self.rule, self.key)

    def to_json(self):
        return {'property': self.prop, 'rule': self.rule, 'key': self.full_key(), 'ok': self.ok, 'msg': self.msg,
                'loc': self.loc, 'witness': self.witness, 'config': self.config}


class Incomplete(Exception):
    """the engine could not analyse something it must be able to analyse (fail closed)"""


class Cx:
    """analysis context for one fact file"""

    def __init__(self, facts, config='default'):
        self.facts = facts
        self.config = config
        self._graphs = {}

    def graph(self, key, **kw):
        k = (key, tuple(sorted(kw.items())))
        g = self._graphs.get(k)
        if g is None:
            g = build(self.facts, key, **kw)
            self._graphs[k] = g
        return g

    def label(self, fn):
        return self.facts.fn_label(fn)

    # ---- impl enumeration -------------------------------------------
    def observer_impls(self):
        return sorted(self.facts.impls_of('observer::Observer'), key=lambda i: (i['file'], i['line'], i['self_s']))

    def method(self, impl, name):
        return self.facts.impl_fn(impl, name)


# ----------------------------------------------------------------------
def down_method(n):
    """'next'/'error'/'complete'/'is_finished' if node is a downstream (unresolved) observer call"""
    if n['kind'] != 'call':
        return None
    return OBS_METHODS.get(n['name'])


def node_desc(g, n):
    k = n['kind']
    if k in ('call', 'enter', 'exit'):
        s = '%s(%s)' % (n['name'], ', '.join(render(a) for a in n['args']))
    elif k == 'assign':
        s = '%s = %s' % (render(n['lhs']), render(n['rhs']))
    elif k == 'drop':
        s = 'drop ' + render(n['place'])
    elif k == 'switch':
        s = 'switch ' + render(n['discr'])
    else:
        s = k
    return '%s %s' % (g.loc(n), s)


def explore(g, init, step, unwind=False, start=None):
    """Product of the event graph with a rule automaton.
    step(state, node, label) -> new state, or None to prune the path.
    `label` is the label of the edge by which `node` is entered.
    Returns (reached, pred): reached = set of (node id, state)."""
    start = g.entry if start is None else start
    s0 = step(init, g.nodes[start], None)
    reached = set()
    pred = {}
    if s0 is None:
        return reached, pred
    q = deque([(start, s0)])
    reached.add((start, s0))
    while q:
        nid, st = q.popleft()
        for (m, k, lab) in g.nodes[nid]['succ']:
            if k == 'u' and not unwind:
                continue
            ns = step(st, g.nodes[m], lab)
            if ns is None:
                continue
            key = (m, ns)
            if key not in reached:
                reached.add(key)
                pred[key] = (nid, st)
                q.append(key)
    return reached, pred


def witness(g, pred, key, interesting=None, limit=40):
    """reconstruct one path (list of node descriptions) ending at key"""
    path = []
    cur = key
    while cur is not None:
        n = g.nodes[cur[0]]
        if interesting is None or interesting(n):
            path.append(node_desc(g, n))
        cur = pred.get(cur)
    path.reverse()
    if len(path) > limit:
        path = path[:limit // 2] + ['…'] + path[-limit // 2:]
    return path


def interesting_default(n):
    return n['kind'] in ('call', 'enter', 'assign', 'switch', 'ret', 'drop')


def reachable(g, start_ids, unwind=False, stop=None):
    seen = set(start_ids)
    q = deque(start_ids)
    while q:
        nid = q.popleft()
        if stop is not None and stop(g.nodes[nid]) and nid not in start_ids:
            continue
        for (m, k, lab) in g.nodes[nid]['succ']:
            if k == 'u' and not unwind:
                continue
            if m not in seen:
                seen.add(m)
                q.append(m)
    return seen


def ret_states(g, reached):
    """states with which the root function returns normally"""
    rs = set(g.rets)
    return [(nid, st) for (nid, st) in reached if nid in rs]


def const_bool(e):
    e = strip(e)
    if e[0] == 'const' and e[1] in ('true', 'false', 'const true', 'const false'):
        return e[1].endswith('true')
    return None


def sw_value(label):
    """(discr expr, value) of a switch edge, value int or ('not', (...))"""
    if label and label[0] == 'sw':
        return label[1], label[2]
    return None, None


def mentions(e, pred):
    return any(pred(x) for x in walk(e))


def path_str(e):
    root, steps = access_path(e)
    r = render(root)
    return r + ''.join(('.' + s) if not s.startswith(('@', '!', '[', 'as ')) else ('<' + s + '>') for s in steps)
