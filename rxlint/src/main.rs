//! rxlint — a rustc_private driver that dumps a "MIR-lite" fact file for the
//! crates named in RXLINT_CRATES (default: rxrust). It does no judging: every
//! rule lives in /verif/rxcheck (Python). See /verif/DESIGN.md §1.
//!
//! Injected with RUSTC_WORKSPACE_WRAPPER (argv[1] = real rustc path, dropped).
//! Output: one file `$RXLINT_OUT/facts.<crate>.json`, written in a single
//! write at the end of `after_analysis`.
#![feature(rustc_private)]
#![allow(clippy::all)]

extern crate rustc_abi;
extern crate rustc_driver;
extern crate rustc_hir;
extern crate rustc_interface;
extern crate rustc_middle;
extern crate rustc_session;
extern crate rustc_span;

mod json;

use json::J;
use rustc_driver::{Callbacks, Compilation};
use rustc_hir::def::DefKind;
use rustc_hir::def_id::{DefId, LocalDefId, LOCAL_CRATE};
use rustc_middle::mir::{
  self, AggregateKind, BasicBlock, Body, Operand, Place, ProjectionElem,
  Rvalue, StatementKind, TerminatorKind, UnwindAction,
};
use rustc_middle::ty::{self, GenericArgsRef, Ty, TyCtxt, TyKind};
use rustc_span::{ExpnKind, Span};
use std::collections::HashMap;

struct Cb {
  out_dir: String,
  early_fns: Vec<J>,
  types: Option<TypeTable>,
}

/// type interning table, kept across the two callbacks as raw JSON (the Ty
/// keys are only valid inside one tcx, which is the same for both callbacks).
struct TypeTable {
  index: HashMap<usize, usize>, // Ty pointer identity -> index
  out: Vec<J>,
}

struct Cx<'a, 'tcx> {
  tcx: TyCtxt<'tcx>,
  tt: &'a mut TypeTable,
}

fn ty_key(ty: Ty<'_>) -> usize {
  // Ty is an interned pointer; its address identifies it within one tcx.
  ty.kind() as *const _ as *const () as usize
}

impl<'a, 'tcx> Cx<'a, 'tcx> {
  fn def_key(&self, def_id: DefId) -> String {
    let krate = self.tcx.crate_name(def_id.krate);
    format!(
      "{}{}",
      krate,
      self.tcx.def_path(def_id).to_string_no_crate_verbose()
    )
  }

  fn loc(&self, span: Span) -> (String, i64, i64) {
    let sm = self.tcx.sess.source_map();
    if span.is_dummy() {
      return ("<dummy>".into(), 0, 0);
    }
    let loc = sm.lookup_char_pos(span.lo());
    let f = format!("{}", loc.file.name.prefer_local_unconditionally());
    (f, loc.line as i64, loc.col.0 as i64 + 1)
  }

  fn span_str(&self, span: Span) -> String {
    let (f, l, c) = self.loc(span);
    format!("{}:{}:{}", f, l, c)
  }

  /// macro expansion chain of a span, innermost first
  fn expn_chain(&self, span: Span) -> J {
    let mut v = vec![];
    let mut sp = span;
    let mut guard = 0;
    while sp.from_expansion() && guard < 16 {
      let data = sp.ctxt().outer_expn_data();
      let name = match data.kind {
        ExpnKind::Macro(_, name) => format!("{}", name),
        ExpnKind::Desugaring(d) => format!("desugar:{:?}", d),
        ExpnKind::AstPass(p) => format!("astpass:{:?}", p),
        ExpnKind::Root => "root".to_string(),
      };
      v.push(J::Obj(vec![
        ("m", J::s(name)),
        ("at", J::s(self.span_str(data.call_site))),
        ("def", J::s(self.span_str(data.def_site))),
      ]));
      sp = data.call_site;
      guard += 1;
    }
    J::Arr(v)
  }

  fn expn_name(&self, span: Span) -> Option<String> {
    if !span.from_expansion() {
      return None;
    }
    let data = span.ctxt().outer_expn_data();
    Some(match data.kind {
      ExpnKind::Macro(_, name) => format!("{}", name),
      ExpnKind::Desugaring(d) => format!("desugar:{:?}", d),
      ExpnKind::AstPass(p) => format!("astpass:{:?}", p),
      ExpnKind::Root => "root".to_string(),
    })
  }

  fn args_tys(&mut self, args: GenericArgsRef<'tcx>) -> J {
    let mut v = vec![];
    for a in args.iter() {
      if let Some(t) = a.as_type() {
        v.push(J::Num(self.ty(t) as i64));
      }
    }
    J::Arr(v)
  }

  fn ty(&mut self, t: Ty<'tcx>) -> usize {
    let k = ty_key(t);
    if let Some(&i) = self.tt.index.get(&k) {
      return i;
    }
    // reserve the slot first (recursive types through args are fine: Ty is a DAG)
    let idx = self.tt.out.len();
    self.tt.out.push(J::Null);
    self.tt.index.insert(k, idx);
    let s = format!("{}", t);
    let mut o: Vec<(&'static str, J)> = vec![];
    match t.kind() {
      TyKind::Bool
      | TyKind::Char
      | TyKind::Int(_)
      | TyKind::Uint(_)
      | TyKind::Float(_)
      | TyKind::Str
      | TyKind::Never => {
        o.push(("k", J::s("prim")));
      }
      TyKind::Adt(def, args) => {
        o.push(("k", J::s("adt")));
        o.push(("p", J::s(self.tcx.def_path_str(def.did()))));
        o.push(("d", J::s(self.def_key(def.did()))));
        let a = self.args_tys(args);
        o.push(("a", a));
      }
      TyKind::Ref(_, inner, m) => {
        o.push(("k", J::s("ref")));
        o.push(("m", J::Bool(m.is_mut())));
        o.push(("t", J::Num(self.ty(*inner) as i64)));
      }
      TyKind::RawPtr(inner, m) => {
        o.push(("k", J::s("ptr")));
        o.push(("m", J::Bool(m.is_mut())));
        o.push(("t", J::Num(self.ty(*inner) as i64)));
      }
      TyKind::Tuple(tys) => {
        o.push(("k", J::s("tuple")));
        let v: Vec<J> = tys.iter().map(|t| J::Num(self.ty(t) as i64)).collect();
        o.push(("a", J::Arr(v)));
      }
      TyKind::Param(p) => {
        o.push(("k", J::s("param")));
        o.push(("n", J::s(format!("{}", p.name))));
      }
      TyKind::Closure(def, args) => {
        o.push(("k", J::s("closure")));
        o.push(("d", J::s(self.def_key(*def))));
        let ups: Vec<J> = args
          .as_closure()
          .upvar_tys()
          .iter()
          .map(|t| J::Num(self.ty(t) as i64))
          .collect();
        o.push(("up", J::Arr(ups)));
      }
      TyKind::Coroutine(def, args) => {
        o.push(("k", J::s("coroutine")));
        o.push(("d", J::s(self.def_key(*def))));
        let ups: Vec<J> = args
          .as_coroutine()
          .upvar_tys()
          .iter()
          .map(|t| J::Num(self.ty(t) as i64))
          .collect();
        o.push(("up", J::Arr(ups)));
      }
      TyKind::CoroutineClosure(def, _) => {
        o.push(("k", J::s("coroutine_closure")));
        o.push(("d", J::s(self.def_key(*def))));
      }
      TyKind::FnDef(def, args) => {
        o.push(("k", J::s("fndef")));
        o.push(("p", J::s(self.tcx.def_path_str(*def))));
        o.push(("d", J::s(self.def_key(*def))));
        let a = self.args_tys(args);
        o.push(("a", a));
      }
      TyKind::FnPtr(sig_tys, _) => {
        o.push(("k", J::s("fnptr")));
        let io = sig_tys.skip_binder().inputs_and_output;
        let v: Vec<J> = io.iter().map(|t| J::Num(self.ty(t) as i64)).collect();
        o.push(("io", J::Arr(v)));
      }
      TyKind::Dynamic(preds, _) => {
        o.push(("k", J::s("dyn")));
        let mut trs = vec![];
        if let Some(p) = preds.principal() {
          let p = p.skip_binder();
          let a = self.args_tys(p.args);
          trs.push(J::Obj(vec![
            ("p", J::s(self.tcx.def_path_str(p.def_id))),
            ("a", a),
          ]));
        }
        for d in preds.auto_traits() {
          trs.push(J::Obj(vec![
            ("p", J::s(self.tcx.def_path_str(d))),
            ("a", J::Arr(vec![])),
          ]));
        }
        o.push(("tr", J::Arr(trs)));
      }
      TyKind::Alias(al) => {
        o.push(("k", J::s("alias")));
        let (ak, did) = match al.kind {
          ty::AliasTyKind::Projection { def_id } => ("projection", def_id),
          ty::AliasTyKind::Inherent { def_id } => ("inherent", def_id),
          ty::AliasTyKind::Opaque { def_id } => ("opaque", def_id),
          ty::AliasTyKind::Free { def_id } => ("free", def_id),
        };
        o.push(("ak", J::s(ak)));
        o.push(("p", J::s(self.tcx.def_path_str(did))));
        let a = self.args_tys(al.args);
        o.push(("a", a));
      }
      TyKind::Array(inner, _) => {
        o.push(("k", J::s("array")));
        o.push(("t", J::Num(self.ty(*inner) as i64)));
      }
      TyKind::Slice(inner) => {
        o.push(("k", J::s("slice")));
        o.push(("t", J::Num(self.ty(*inner) as i64)));
      }
      _ => {
        o.push(("k", J::s("other")));
      }
    }
    o.push(("s", J::s(s)));
    self.tt.out[idx] = J::Obj(o);
    idx
  }

  fn place(&mut self, body: &Body<'tcx>, p: &Place<'tcx>) -> J {
    let tcx = self.tcx;
    let mut pty = mir::PlaceTy::from_ty(body.local_decls[p.local].ty);
    let mut proj = vec![];
    for elem in p.projection.iter() {
      match elem {
        ProjectionElem::Deref => proj.push(J::s("*")),
        ProjectionElem::Field(f, _) => {
          let mut name = J::Null;
          let mut boxy = false;
          if let TyKind::Adt(adt, _) = pty.ty.kind() {
            let p = tcx.def_path_str(adt.did());
            if pty.ty.is_box() || p.ends_with("ptr::Unique") || p.ends_with("ptr::NonNull") {
              boxy = true;
            }
          }
          if let TyKind::Adt(adt, _) = pty.ty.kind() {
            let vi = pty.variant_index.unwrap_or(rustc_abi::FIRST_VARIANT);
            if adt.is_enum() || adt.is_struct() || adt.is_union() {
              if let Some(fd) = adt.variant(vi).fields.get(f) {
                name = J::s(format!("{}", fd.name));
              }
            }
          }
          if boxy {
            proj.push(J::Obj(vec![("f", J::Num(f.as_usize() as i64)), ("n", name), ("bx", J::Bool(true))]));
          } else {
            proj.push(J::Obj(vec![("f", J::Num(f.as_usize() as i64)), ("n", name)]));
          }
        }
        ProjectionElem::Downcast(name, vi) => {
          let n = match name {
            Some(s) => format!("{}", s),
            None => format!("{}", vi.as_usize()),
          };
          proj.push(J::Obj(vec![("d", J::s(n)), ("vi", J::Num(vi.as_usize() as i64))]));
        }
        ProjectionElem::Index(_) | ProjectionElem::ConstantIndex { .. } | ProjectionElem::Subslice { .. } => {
          proj.push(J::s("[]"))
        }
        _ => proj.push(J::s("?")),
      }
      pty = pty.projection_ty(tcx, elem);
    }
    let t = self.ty(pty.ty);
    J::Obj(vec![
      ("l", J::Num(p.local.as_usize() as i64)),
      ("p", J::Arr(proj)),
      ("t", J::Num(t as i64)),
    ])
  }

  fn callee(&mut self, owner: DefId, def_id: DefId, args: GenericArgsRef<'tcx>) -> J {
    let tcx = self.tcx;
    let mut o: Vec<(&'static str, J)> = vec![];
    o.push(("p", J::s(tcx.def_path_str(def_id))));
    o.push(("d", J::s(self.def_key(def_id))));
    o.push(("n", J::opt_s(tcx.opt_item_name(def_id).map(|s| format!("{}", s)))));
    let a = self.args_tys(args);
    o.push(("a", a));
    let kind = tcx.def_kind(def_id);
    if matches!(kind, DefKind::AssocFn) {
      if let Some(tr) = tcx.trait_of_assoc(def_id) {
        o.push(("tr", J::s(tcx.def_path_str(tr))));
      } else if let Some(im) = tcx.impl_of_assoc(def_id) {
        o.push(("impl", J::s(self.def_key(im))));
        if let Some(tr) = tcx.impl_opt_trait_id(im) {
          o.push(("itr", J::s(tcx.def_path_str(tr))));
        }
        let st = tcx.type_of(im).instantiate_identity().skip_norm_wip();
        o.push(("ity", J::Num(self.ty(st) as i64)));
      }
    }
    if matches!(kind, DefKind::Fn | DefKind::AssocFn | DefKind::Closure | DefKind::Ctor(..)) {
      let env = ty::TypingEnv::post_analysis(tcx, owner);
      let resolvable = !matches!(kind, DefKind::Ctor(..));
      if resolvable {
        if let Ok(Some(inst)) = ty::Instance::try_resolve(tcx, env, def_id, args) {
          let (ik, did) = match inst.def {
            ty::InstanceKind::Item(d) => ("item", Some(d)),
            ty::InstanceKind::Virtual(d, _) => ("virtual", Some(d)),
            ty::InstanceKind::FnPtrShim(d, _) => ("fnptrshim", Some(d)),
            ty::InstanceKind::ClosureOnceShim { call_once, .. } => ("closure_once", Some(call_once)),
            ty::InstanceKind::Intrinsic(d) => ("intrinsic", Some(d)),
            ty::InstanceKind::DropGlue(d, _) => ("dropglue", Some(d)),
            ty::InstanceKind::CloneShim(d, _) => ("cloneshim", Some(d)),
            ty::InstanceKind::ReifyShim(d, _) => ("reify", Some(d)),
            _ => ("other", None),
          };
          let mut r: Vec<(&'static str, J)> = vec![("k", J::s(ik))];
          if let Some(d) = did {
            r.push(("d", J::s(self.def_key(d))));
            r.push(("local", J::Bool(d.is_local())));
            r.push(("p", J::s(tcx.def_path_str(d))));
            if let Some(im) = tcx.impl_of_assoc(d) {
              r.push(("impl", J::s(self.def_key(im))));
            }
          }
          let ra = self.args_tys(inst.args);
          r.push(("a", ra));
          o.push(("res", J::Obj(r)));
        }
      }
    }
    J::Obj(o)
  }

  fn operand(&mut self, owner: DefId, body: &Body<'tcx>, op: &Operand<'tcx>) -> J {
    match op {
      Operand::Copy(p) => J::Obj(vec![("o", J::s("copy")), ("pl", self.place(body, p))]),
      Operand::Move(p) => J::Obj(vec![("o", J::s("move")), ("pl", self.place(body, p))]),
      Operand::Constant(c) => {
        let t = c.const_.ty();
        let mut o: Vec<(&'static str, J)> = vec![("o", J::s("const"))];
        o.push(("t", J::Num(self.ty(t) as i64)));
        if let TyKind::FnDef(d, a) = t.kind() {
          let cal = self.callee(owner, *d, a);
          o.push(("fn", cal));
        } else {
          let mut s = format!("{}", c.const_);
          if s.len() > 200 {
            s.truncate(200);
          }
          let literal = s.chars().next().map_or(false, |ch| ch.is_ascii_digit() || ch == '-');
          o.push(("v", J::s(s)));
          if t.is_bool() {
            if let Some(b) = c.const_.try_to_bool() {
              o.push(("b", J::Bool(b)));
            }
          } else if t.is_integral() && !literal {
            // a named constant (`WAITING`): record its value so that rules can compare it with literals
            let env = ty::TypingEnv::post_analysis(self.tcx, owner);
            if let Some(si) = c.const_.try_eval_scalar_int(self.tcx, env) {
              let size = si.size();
              let v: i128 = if t.is_signed() { si.to_int(size) } else { si.to_uint(size) as i128 };
              if v >= i64::MIN as i128 && v <= i64::MAX as i128 {
                o.push(("iv", J::Num(v as i64)));
              } else {
                o.push(("ivs", J::s(format!("{}", v))));
              }
            }
          }
        }
        J::Obj(o)
      }
      _ => J::Obj(vec![("o", J::s("other"))]),
    }
  }

  fn sp(&mut self, fn_span: Span, span: Span) -> J {
    let (f, l, c) = self.loc(span);
    let (ff, _, _) = self.loc(fn_span);
    let mut o = vec![("l", J::Num(l)), ("c", J::Num(c))];
    if f != ff {
      o.push(("f", J::s(f)));
    }
    if span.ctxt() != fn_span.ctxt() {
      if let Some(n) = self.expn_name(span) {
        o.push(("x", J::s(n)));
      }
    }
    J::Obj(o)
  }

  fn rvalue(&mut self, owner: DefId, body: &Body<'tcx>, rv: &Rvalue<'tcx>) -> J {
    match rv {
      Rvalue::Use(op, ..) => J::Obj(vec![("r", J::s("use")), ("op", self.operand(owner, body, op))]),
      Rvalue::Ref(_, bk, p) => J::Obj(vec![
        ("r", J::s("ref")),
        ("m", J::Bool(matches!(bk, mir::BorrowKind::Mut { .. }))),
        ("pl", self.place(body, p)),
      ]),
      Rvalue::RawPtr(_, p) => J::Obj(vec![("r", J::s("rawptr")), ("pl", self.place(body, p))]),
      Rvalue::Cast(ck, op, t) => J::Obj(vec![
        ("r", J::s("cast")),
        ("ck", J::s(format!("{:?}", ck))),
        ("op", self.operand(owner, body, op)),
        ("t", J::Num(self.ty(*t) as i64)),
      ]),
      Rvalue::BinaryOp(op, ab) => J::Obj(vec![
        ("r", J::s("bin")),
        ("op", J::s(format!("{:?}", op))),
        ("a", self.operand(owner, body, &ab.0)),
        ("b", self.operand(owner, body, &ab.1)),
      ]),
      Rvalue::UnaryOp(op, a) => J::Obj(vec![
        ("r", J::s("un")),
        ("op", J::s(format!("{:?}", op))),
        ("a", self.operand(owner, body, a)),
      ]),
      Rvalue::Discriminant(p) => J::Obj(vec![("r", J::s("discr")), ("pl", self.place(body, p))]),
      Rvalue::CopyForDeref(p) => J::Obj(vec![("r", J::s("copyderef")), ("pl", self.place(body, p))]),
      Rvalue::Aggregate(kind, ops) => {
        let mut o: Vec<(&'static str, J)> = vec![("r", J::s("agg"))];
        match &**kind {
          AggregateKind::Array(_) => o.push(("ak", J::s("array"))),
          AggregateKind::Tuple => o.push(("ak", J::s("tuple"))),
          AggregateKind::Adt(did, vi, args, _, _) => {
            o.push(("ak", J::s("adt")));
            o.push(("p", J::s(self.tcx.def_path_str(*did))));
            let adt = self.tcx.adt_def(*did);
            o.push(("v", J::s(format!("{}", adt.variant(*vi).name))));
            let names: Vec<J> = adt.variant(*vi).fields.iter().map(|f| J::s(format!("{}", f.name))).collect();
            o.push(("fn", J::Arr(names)));
            let a = self.args_tys(args);
            o.push(("a", a));
          }
          AggregateKind::Closure(did, _) => {
            o.push(("ak", J::s("closure")));
            o.push(("d", J::s(self.def_key(*did))));
          }
          AggregateKind::Coroutine(did, _) => {
            o.push(("ak", J::s("coroutine")));
            o.push(("d", J::s(self.def_key(*did))));
          }
          AggregateKind::CoroutineClosure(did, _) => {
            o.push(("ak", J::s("coroutine_closure")));
            o.push(("d", J::s(self.def_key(*did))));
          }
          AggregateKind::RawPtr(..) => o.push(("ak", J::s("rawptr"))),
        }
        let v: Vec<J> = ops.iter().map(|op| self.operand(owner, body, op)).collect();
        o.push(("ops", J::Arr(v)));
        J::Obj(o)
      }
      other => J::Obj(vec![("r", J::s("other")), ("s", J::s(format!("{:?}", other)))]),
    }
  }

  fn unwind(&self, u: &UnwindAction) -> J {
    match u {
      UnwindAction::Cleanup(bb) => J::Num(bb.as_usize() as i64),
      _ => J::Null,
    }
  }

  fn bb(&self, b: BasicBlock) -> J {
    J::Num(b.as_usize() as i64)
  }

  fn body(&mut self, owner: DefId, body: &Body<'tcx>, phase: &'static str) -> Vec<(&'static str, J)> {
    let fn_span = body.span;
    let mut o: Vec<(&'static str, J)> = vec![];
    o.push(("phase", J::s(phase)));
    o.push(("argc", J::Num(body.arg_count as i64)));
    let locals: Vec<J> = body
      .local_decls
      .iter()
      .map(|d| {
        J::Obj(vec![("t", J::Num(self.ty(d.ty) as i64))])
      })
      .collect();
    o.push(("locals", J::Arr(locals)));
    let mut dbg = vec![];
    for v in body.var_debug_info.iter() {
      if let mir::VarDebugInfoContents::Place(p) = &v.value {
        dbg.push(J::Obj(vec![("n", J::s(format!("{}", v.name))), ("pl", self.place(body, p))]));
      }
    }
    o.push(("dbg", J::Arr(dbg)));
    let mut blocks = vec![];
    for (_bb, data) in body.basic_blocks.iter_enumerated() {
      let mut stmts = vec![];
      for st in data.statements.iter() {
        match &st.kind {
          StatementKind::Assign(b) => {
            let (pl, rv) = &**b;
            stmts.push(J::Obj(vec![
              ("k", J::s("assign")),
              ("pl", self.place(body, pl)),
              ("rv", self.rvalue(owner, body, rv)),
              ("sp", self.sp(fn_span, st.source_info.span)),
            ]));
          }
          StatementKind::SetDiscriminant { place, variant_index } => {
            stmts.push(J::Obj(vec![
              ("k", J::s("setdiscr")),
              ("pl", self.place(body, place)),
              ("vi", J::Num(variant_index.as_usize() as i64)),
              ("sp", self.sp(fn_span, st.source_info.span)),
            ]));
          }
          _ => {}
        }
      }
      let term = data.terminator();
      let sp = self.sp(fn_span, term.source_info.span);
      let mut t: Vec<(&'static str, J)> = vec![];
      match &term.kind {
        TerminatorKind::Goto { target } => {
          t.push(("k", J::s("goto")));
          t.push(("t", self.bb(*target)));
        }
        TerminatorKind::FalseEdge { real_target, .. } => {
          t.push(("k", J::s("goto")));
          t.push(("t", self.bb(*real_target)));
        }
        TerminatorKind::FalseUnwind { real_target, .. } => {
          t.push(("k", J::s("goto")));
          t.push(("t", self.bb(*real_target)));
        }
        TerminatorKind::SwitchInt { discr, targets } => {
          t.push(("k", J::s("switch")));
          t.push(("d", self.operand(owner, body, discr)));
          let v: Vec<J> = targets
            .iter()
            .map(|(val, bb)| J::Arr(vec![J::Num(val as i64), self.bb(bb)]))
            .collect();
          t.push(("v", J::Arr(v)));
          t.push(("o", self.bb(targets.otherwise())));
        }
        TerminatorKind::Return => t.push(("k", J::s("ret"))),
        TerminatorKind::Unreachable => t.push(("k", J::s("unreachable"))),
        TerminatorKind::UnwindResume => t.push(("k", J::s("resume"))),
        TerminatorKind::UnwindTerminate(_) => t.push(("k", J::s("abort"))),
        TerminatorKind::CoroutineDrop => t.push(("k", J::s("cordrop"))),
        TerminatorKind::Drop { place, target, unwind, .. } => {
          t.push(("k", J::s("drop")));
          t.push(("pl", self.place(body, place)));
          t.push(("t", self.bb(*target)));
          t.push(("u", self.unwind(unwind)));
        }
        TerminatorKind::Call { func, args, destination, target, unwind, .. } => {
          t.push(("k", J::s("call")));
          t.push(("f", self.operand(owner, body, func)));
          let a: Vec<J> = args.iter().map(|a| self.operand(owner, body, &a.node)).collect();
          t.push(("a", J::Arr(a)));
          t.push(("d", self.place(body, destination)));
          t.push(("t", target.map_or(J::Null, |b| self.bb(b))));
          t.push(("u", self.unwind(unwind)));
        }
        TerminatorKind::TailCall { func, args, .. } => {
          t.push(("k", J::s("tailcall")));
          t.push(("f", self.operand(owner, body, func)));
          let a: Vec<J> = args.iter().map(|a| self.operand(owner, body, &a.node)).collect();
          t.push(("a", J::Arr(a)));
        }
        TerminatorKind::Assert { cond, expected, target, unwind, msg } => {
          t.push(("k", J::s("assert")));
          t.push(("c", self.operand(owner, body, cond)));
          t.push(("e", J::Bool(*expected)));
          t.push(("t", self.bb(*target)));
          t.push(("u", self.unwind(unwind)));
          let mut m = format!("{:?}", msg);
          m.truncate(80);
          t.push(("m", J::s(m)));
        }
        TerminatorKind::Yield { value, resume, drop, .. } => {
          t.push(("k", J::s("yield")));
          t.push(("v", self.operand(owner, body, value)));
          t.push(("t", self.bb(*resume)));
          t.push(("dr", drop.map_or(J::Null, |b| self.bb(b))));
        }
        TerminatorKind::InlineAsm { .. } => t.push(("k", J::s("asm"))),
      }
      t.push(("sp", sp));
      blocks.push(J::Obj(vec![
        ("c", J::Bool(data.is_cleanup)),
        ("s", J::Arr(stmts)),
        ("t", J::Obj(t)),
      ]));
    }
    o.push(("blocks", J::Arr(blocks)));
    o
  }

  fn predicates(&mut self, def_id: DefId) -> J {
    let tcx = self.tcx;
    let preds = tcx.predicates_of(def_id).instantiate_identity(tcx);
    let mut v = vec![];
    for p in preds.predicates.into_iter() {
      let c = p.skip_norm_wip();
      let kind = c.kind().skip_binder();
      match kind {
        ty::ClauseKind::Trait(tp) => {
          let tr = tp.trait_ref;
          let st = tr.self_ty();
          let a = self.args_tys(tr.args);
          v.push(J::Obj(vec![
            ("k", J::s("trait")),
            ("self", J::Num(self.ty(st) as i64)),
            ("tr", J::s(tcx.def_path_str(tr.def_id))),
            ("a", a),
            ("s", J::s(format!("{}", c))),
          ]));
        }
        ty::ClauseKind::Projection(pp) => {
          let a = self.args_tys(pp.projection_term.args);
          let term = pp.term.as_type().map(|t| self.ty(t) as i64);
          v.push(J::Obj(vec![
            ("k", J::s("proj")),
            ("p", J::s(tcx.def_path_str(pp.projection_term.def_id()))),
            ("a", a),
            ("term", term.map_or(J::Null, J::Num)),
            ("s", J::s(format!("{}", c))),
          ]));
        }
        _ => {
          v.push(J::Obj(vec![("k", J::s("other")), ("s", J::s(format!("{}", c)))]));
        }
      }
    }
    J::Arr(v)
  }

  fn generics(&self, def_id: DefId) -> J {
    let g = self.tcx.generics_of(def_id);
    let mut v = vec![];
    let mut cur = Some(g);
    let mut stack = vec![];
    while let Some(g) = cur {
      stack.push(g);
      cur = g.parent.map(|p| self.tcx.generics_of(p));
    }
    for g in stack.into_iter().rev() {
      for p in g.own_params.iter() {
        if matches!(p.kind, ty::GenericParamDefKind::Type { .. }) {
          v.push(J::s(format!("{}", p.name)));
        }
      }
    }
    J::Arr(v)
  }

  fn fn_header(&mut self, def_id: DefId) -> Vec<(&'static str, J)> {
    let tcx = self.tcx;
    let kind = tcx.def_kind(def_id);
    let mut o: Vec<(&'static str, J)> = vec![];
    o.push(("key", J::s(self.def_key(def_id))));
    o.push(("path", J::s(tcx.def_path_str(def_id))));
    let is_cor = tcx.is_coroutine(def_id);
    let k = match kind {
      DefKind::Fn => "fn",
      DefKind::AssocFn => "assoc_fn",
      DefKind::Closure => {
        if is_cor {
          "coroutine"
        } else {
          "closure"
        }
      }
      DefKind::Const { .. } => "const",
      _ => "other",
    };
    o.push(("kind", J::s(k)));
    o.push(("name", J::opt_s(tcx.opt_item_name(def_id).map(|s| format!("{}", s)))));
    let span = tcx.def_span(def_id);
    o.push(("span", J::s(self.span_str(span))));
    o.push(("expn", self.expn_chain(span)));
    let root = tcx.typeck_root_def_id(def_id);
    if root != def_id {
      if let Some(l) = def_id.as_local() {
        let caps: Vec<J> = tcx.closure_captures(l).iter().map(|c| J::s(format!("{}", c.to_symbol()))).collect();
        o.push(("captures", J::Arr(caps)));
      }
      o.push(("root", J::s(self.def_key(root))));
      if let Some(p) = tcx.opt_parent(def_id) {
        o.push(("parent", J::s(self.def_key(p))));
      }
    }
    if matches!(kind, DefKind::AssocFn) {
      if let Some(im) = tcx.impl_of_assoc(def_id) {
        o.push(("impl", J::s(self.def_key(im))));
      }
      if let Some(tr) = tcx.trait_of_assoc(def_id) {
        o.push(("trait", J::s(tcx.def_path_str(tr))));
      }
      if let Some(ai) = tcx.opt_associated_item(def_id) {
        if let Some(ti) = ai.trait_item_def_id() {
          o.push(("trait_item", J::s(tcx.def_path_str(ti))));
        }
      }
    }
    if matches!(kind, DefKind::Fn | DefKind::AssocFn) {
      let sig = tcx.fn_sig(def_id).instantiate_identity().skip_norm_wip().skip_binder();
      let ins: Vec<J> = sig.inputs().iter().map(|t| J::Num(self.ty(*t) as i64)).collect();
      o.push(("inputs", J::Arr(ins)));
      o.push(("output", J::Num(self.ty(sig.output()) as i64)));
      o.push(("unsafe", J::Bool(!sig.safety().is_safe())));
      o.push(("preds", self.predicates(def_id)));
      o.push(("generics", self.generics(def_id)));
      let vis = tcx.visibility(def_id);
      o.push(("pub", J::Bool(vis.is_public())));
    }
    o
  }
}

fn is_target_crate(tcx: TyCtxt<'_>) -> bool {
  let name = format!("{}", tcx.crate_name(LOCAL_CRATE));
  let want = std::env::var("RXLINT_CRATES").unwrap_or_else(|_| "rxrust".to_string());
  want.split(',').any(|w| w == name)
}

impl Callbacks for Cb {
  fn after_expansion<'tcx>(&mut self, _c: &rustc_interface::interface::Compiler, tcx: TyCtxt<'tcx>) -> Compilation {
    if !is_target_crate(tcx) {
      return Compilation::Continue;
    }
    // coroutine bodies: only the pre-transform MIR still has source structure
    let mut tt = TypeTable { index: HashMap::new(), out: vec![] };
    {
      let mut cx = Cx { tcx, tt: &mut tt };
      let owners: Vec<LocalDefId> = tcx.hir_body_owners().collect();
      for ldid in owners {
        let def_id = ldid.to_def_id();
        if !matches!(tcx.def_kind(def_id), DefKind::Closure) || !tcx.is_coroutine(def_id) {
          continue;
        }
        let steal = tcx.mir_built(ldid);
        let body = steal.borrow();
        let mut o = cx.fn_header(def_id);
        let b = cx.body(def_id, &body, "built");
        o.extend(b);
        self.early_fns.push(J::Obj(o));
      }
    }
    self.types = Some(tt);
    Compilation::Continue
  }

  fn after_analysis<'tcx>(&mut self, _c: &rustc_interface::interface::Compiler, tcx: TyCtxt<'tcx>) -> Compilation {
    if !is_target_crate(tcx) {
      return Compilation::Continue;
    }
    let mut tt = self.types.take().unwrap_or(TypeTable { index: HashMap::new(), out: vec![] });
    let mut fns: Vec<J> = std::mem::take(&mut self.early_fns);
    let mut adts = vec![];
    let mut traits = vec![];
    let mut impls = vec![];
    let mut unsafes = vec![];
    let crate_name = format!("{}", tcx.crate_name(LOCAL_CRATE));
    {
      let mut cx = Cx { tcx, tt: &mut tt };
      // bodies
      let owners: Vec<LocalDefId> = tcx.hir_body_owners().collect();
      for ldid in owners {
        let def_id = ldid.to_def_id();
        let kind = tcx.def_kind(def_id);
        if !matches!(kind, DefKind::Fn | DefKind::AssocFn | DefKind::Closure) {
          continue;
        }
        if tcx.is_coroutine(def_id) {
          continue; // taken from mir_built in after_expansion
        }
        let body = tcx.optimized_mir(def_id);
        let mut o = cx.fn_header(def_id);
        let b = cx.body(def_id, body, "optimized");
        o.extend(b);
        fns.push(J::Obj(o));
      }
      // initialisers of (non-generic) constants: rules compare configuration values such as `const NO_DELAY: Option<Duration> = None`
      let owners2: Vec<LocalDefId> = tcx.hir_body_owners().collect();
      for ldid in owners2 {
        let def_id = ldid.to_def_id();
        if !matches!(tcx.def_kind(def_id), DefKind::Const { .. }) {
          continue;
        }
        if tcx.generics_of(def_id).count() != 0 {
          continue;
        }
        let body = tcx.mir_for_ctfe(def_id);
        let mut o = cx.fn_header(def_id);
        let b = cx.body(def_id, body, "ctfe");
        o.extend(b);
        fns.push(J::Obj(o));
      }
      // items
      let items = tcx.hir_crate_items(());
      for ldid in items.definitions() {
        let def_id = ldid.to_def_id();
        match tcx.def_kind(def_id) {
          DefKind::Struct | DefKind::Enum | DefKind::Union => {
            let adt = tcx.adt_def(def_id);
            let mut vars = vec![];
            for v in adt.variants().iter() {
              let mut fields = vec![];
              for f in v.fields.iter() {
                let ft = tcx.type_of(f.did).instantiate_identity().skip_norm_wip();
                fields.push(J::Obj(vec![
                  ("n", J::s(format!("{}", f.name))),
                  ("t", J::Num(cx.ty(ft) as i64)),
                  ("pub", J::Bool(f.vis.is_public())),
                ]));
              }
              vars.push(J::Obj(vec![("n", J::s(format!("{}", v.name))), ("fields", J::Arr(fields))]));
            }
            let span = tcx.def_span(def_id);
            adts.push(J::Obj(vec![
              ("key", J::s(cx.def_key(def_id))),
              ("path", J::s(tcx.def_path_str(def_id))),
              ("kind", J::s(if adt.is_enum() { "enum" } else if adt.is_struct() { "struct" } else { "union" })),
              ("generics", cx.generics(def_id)),
              ("variants", J::Arr(vars)),
              ("preds", cx.predicates(def_id)),
              ("span", J::s(cx.span_str(span))),
              ("expn", cx.expn_chain(span)),
              ("pub", J::Bool(tcx.visibility(def_id).is_public())),
            ]));
          }
          DefKind::Trait => {
            let mut methods = vec![];
            for ai in tcx.associated_items(def_id).in_definition_order() {
              if let ty::AssocKind::Fn { name, has_self } = ai.kind {
                let sig = tcx.fn_sig(ai.def_id).instantiate_identity().skip_norm_wip().skip_binder();
                let ins: Vec<J> = sig.inputs().iter().map(|t| J::Num(cx.ty(*t) as i64)).collect();
                methods.push(J::Obj(vec![
                  ("n", J::s(format!("{}", name))),
                  ("key", J::s(cx.def_key(ai.def_id))),
                  ("has_self", J::Bool(has_self)),
                  ("default", J::Bool(ai.defaultness(tcx).has_value())),
                  ("inputs", J::Arr(ins)),
                  ("output", J::Num(cx.ty(sig.output()) as i64)),
                ]));
              }
            }
            traits.push(J::Obj(vec![
              ("key", J::s(cx.def_key(def_id))),
              ("path", J::s(tcx.def_path_str(def_id))),
              ("methods", J::Arr(methods)),
              ("preds", cx.predicates(def_id)),
              ("span", J::s(cx.span_str(tcx.def_span(def_id)))),
            ]));
          }
          DefKind::Impl { of_trait } => {
            let self_ty = tcx.type_of(def_id).instantiate_identity().skip_norm_wip();
            let mut o: Vec<(&'static str, J)> = vec![];
            o.push(("key", J::s(cx.def_key(def_id))));
            o.push(("self", J::Num(cx.ty(self_ty) as i64)));
            if of_trait {
              let tr = tcx.impl_trait_ref(def_id).instantiate_identity().skip_norm_wip();
              o.push(("trait", J::s(tcx.def_path_str(tr.def_id))));
              let a = cx.args_tys(tr.args);
              o.push(("trait_args", a));
              let hdr = tcx.impl_trait_header(def_id);
              o.push(("unsafe", J::Bool(!hdr.safety.is_safe())));
              o.push(("negative", J::Bool(matches!(hdr.polarity, ty::ImplPolarity::Negative))));
            }
            o.push(("generics", cx.generics(def_id)));
            o.push(("preds", cx.predicates(def_id)));
            let mut assoc_tys = vec![];
            let mut items_j = vec![];
            for ai in tcx.associated_items(def_id).in_definition_order() {
              match ai.kind {
                ty::AssocKind::Type { .. } => {
                  if let Some(n) = ai.opt_name() {
                    let t = tcx.type_of(ai.def_id).instantiate_identity().skip_norm_wip();
                    assoc_tys.push(J::Obj(vec![("n", J::s(format!("{}", n))), ("t", J::Num(cx.ty(t) as i64))]));
                  }
                }
                ty::AssocKind::Fn { name, .. } => {
                  items_j.push(J::Obj(vec![("n", J::s(format!("{}", name))), ("key", J::s(cx.def_key(ai.def_id)))]));
                }
                _ => {}
              }
            }
            o.push(("assoc_tys", J::Arr(assoc_tys)));
            o.push(("fns", J::Arr(items_j)));
            let span = tcx.def_span(def_id);
            o.push(("span", J::s(cx.span_str(span))));
            o.push(("expn", cx.expn_chain(span)));
            o.push(("derived", J::Bool(tcx.is_automatically_derived(def_id))));
            impls.push(J::Obj(o));
          }
          _ => {}
        }
      }
      // unsafe blocks (HIR)
      collect_unsafe_blocks(&mut cx, &mut unsafes);
    }
    let out = J::Obj(vec![
      ("crate", J::s(crate_name.clone())),
      ("rustc", J::s(option_env!("CFG_VERSION").unwrap_or("nightly"))),
      ("types", J::Arr(tt.out)),
      ("fns", J::Arr(fns)),
      ("adts", J::Arr(adts)),
      ("traits", J::Arr(traits)),
      ("impls", J::Arr(impls)),
      ("unsafe_blocks", J::Arr(unsafes)),
    ]);
    let mut s = String::new();
    out.write(&mut s);
    let path = format!("{}/facts.{}.json", self.out_dir, crate_name);
    let tmp = format!("{}.tmp.{}", path, std::process::id());
    std::fs::write(&tmp, s).expect("rxlint: cannot write fact file");
    std::fs::rename(&tmp, &path).expect("rxlint: cannot rename fact file");
    Compilation::Continue
  }
}

fn collect_unsafe_blocks<'a, 'tcx>(cx: &mut Cx<'a, 'tcx>, out: &mut Vec<J>) {
  use rustc_hir::intravisit::{self, Visitor};
  struct V<'b, 'a, 'tcx> {
    cx: &'b mut Cx<'a, 'tcx>,
    out: &'b mut Vec<J>,
  }
  impl<'b, 'a, 'tcx> Visitor<'tcx> for V<'b, 'a, 'tcx> {
    type NestedFilter = rustc_middle::hir::nested_filter::All;
    fn maybe_tcx(&mut self) -> TyCtxt<'tcx> {
      self.cx.tcx
    }
    fn visit_block(&mut self, b: &'tcx rustc_hir::Block<'tcx>) {
      if let rustc_hir::BlockCheckMode::UnsafeBlock(src) = b.rules {
        let user = matches!(src, rustc_hir::UnsafeSource::UserProvided);
        self.out.push(J::Obj(vec![
          ("span", J::s(self.cx.span_str(b.span))),
          ("user", J::Bool(user)),
          ("expn", self.cx.expn_chain(b.span)),
        ]));
      }
      intravisit::walk_block(self, b);
    }
  }
  let tcx = cx.tcx;
  let mut v = V { cx, out };
  tcx.hir_walk_toplevel_module(&mut v);
}

fn main() {
  let mut args: Vec<String> = std::env::args().collect();
  // RUSTC_WORKSPACE_WRAPPER: argv[1] is the path of the real rustc
  if args.len() > 1 && (args[1].ends_with("rustc") || args[1].contains("/rustc")) {
    args.remove(1);
  }
  let out_dir = std::env::var("RXLINT_OUT").unwrap_or_else(|_| ".".to_string());
  let mut cb = Cb { out_dir, early_fns: vec![], types: None };
  let code = rustc_driver::catch_with_exit_code(move || {
    rustc_driver::run_compiler(&args, &mut cb);
  });
  std::process::exit(if code == std::process::ExitCode::SUCCESS { 0 } else { 1 });
}
