//! Compile-fail witnesses (DESIGN §1.5). Nothing here is ever run: rustc type-checks and
//! borrow-checks the doc-tests (`compile_fail,E0xxx` must fail with exactly that code, the
//! `no_run` twin differing only in the offending line must compile). Run with
//! `cargo +nightly test --doc --offline` (error codes are only honoured on nightly).

/// W1 (C01.P5): an observer cannot be used after its terminal — `complete(self)` moves it.
/// ```compile_fail,E0382
/// use rxrust::prelude::*;
/// fn late<O: Observer<i32, ()>>(mut o: O) {
///   o.next(1);
///   o.complete();
///   o.next(2); // use after the terminal
/// }
/// ```
pub struct W1UseAfterComplete;

/// W1 twin: the same without the late call compiles.
/// ```no_run
/// use rxrust::prelude::*;
/// fn fine<O: Observer<i32, ()>>(mut o: O) {
///   o.next(1);
///   o.complete();
/// }
/// ```
pub struct W1Twin;

/// W1b (C01.P5): two terminals on one observer.
/// ```compile_fail,E0382
/// use rxrust::prelude::*;
/// fn twice<O: Observer<i32, ()>>(o: O) {
///   o.complete();
///   o.error(()); // second terminal
/// }
/// ```
pub struct W1TwoTerminals;

/// W1b twin.
/// ```no_run
/// use rxrust::prelude::*;
/// fn once<O: Observer<i32, ()>>(o: O) {
///   o.error(());
/// }
/// ```
pub struct W1bTwin;

/// W2 (C15.N1): finalize accepts a callback that is only FnOnce (it moves a capture out);
/// if the internals start to need FnMut/Clone on the stored callback this stops compiling.
/// ```no_run
/// use rxrust::prelude::*;
/// use rxrust::ops::finalize::FinalizeOp;
/// let s = String::from("moved out");
/// let _ = FinalizeOp::new(observable::of(1), move || drop(s)).subscribe(|_| {});
/// ```
pub struct W2FnOnceFinalizer;

/// W2 companion: a finalizer callback cannot be called twice by anyone holding it as FnOnce.
/// ```compile_fail,E0382
/// fn call_twice<F: FnOnce()>(f: F) {
///   f();
///   f();
/// }
/// ```
pub struct W2CallTwice;

/// W3 (C10.L1): a thread-safe subject rejects an observer that is not Send.
/// ```compile_fail,E0277
/// use rxrust::prelude::*;
/// use std::rc::Rc;
/// let seen = Rc::new(std::cell::Cell::new(0));
/// let c = seen.clone();
/// let subject = SubjectThreads::<i32, std::convert::Infallible>::default();
/// subject.clone().subscribe(move |v| c.set(v)); // Rc is !Send
/// ```
pub struct W3NonSendObserver;

/// W3 twin: the same with an Arc compiles.
/// ```no_run
/// use rxrust::prelude::*;
/// use std::sync::{Arc, atomic::{AtomicI32, Ordering}};
/// let seen = Arc::new(AtomicI32::new(0));
/// let c = seen.clone();
/// let subject = SubjectThreads::<i32, std::convert::Infallible>::default();
/// subject.clone().subscribe(move |v| c.store(v, Ordering::Relaxed));
/// ```
pub struct W3Twin;

/// W3b (C10.L1): a local Subject cannot be moved to another thread.
/// ```compile_fail,E0277
/// use rxrust::prelude::*;
/// let mut subject = Subject::<i32, ()>::default();
/// std::thread::spawn(move || subject.next(1));
/// ```
pub struct W3LocalSubjectNotSend;

/// W3b twin: SubjectThreads can.
/// ```no_run
/// use rxrust::prelude::*;
/// let mut subject = SubjectThreads::<i32, ()>::default();
/// std::thread::spawn(move || subject.next(1));
/// ```
pub struct W3bTwin;

/// W4 (C17/C19): a task handle cannot be duplicated, so "a remaining handle after unsubscribe"
/// does not exist for scheduled tasks.
/// ```compile_fail,E0599
/// use rxrust::prelude::*;
/// fn dup(h: TaskHandle<NormalReturn<()>>) {
///   let _copy = h.clone();
/// }
/// ```
pub struct W4TaskHandleNotClone;

/// W4 twin.
/// ```no_run
/// use rxrust::prelude::*;
/// fn ask(h: TaskHandle<NormalReturn<()>>) {
///   let _closed = h.is_closed();
/// }
/// ```
pub struct W4Twin;
