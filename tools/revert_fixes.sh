#!/bin/sh
# For every "fix:" commit in /repo: revert it in the working tree (no commit), run the checks named for it in
# known_findings.txt, require a VIOLATION, restore. Shows that each repaired defect is reported again if it returns.
cd /repo || exit 2
git diff --quiet || { echo "/repo dirty"; exit 2; }
grep '^fixed:' /verif/known_findings.txt | while read -r _ prop commit rest; do
  p=${prop#property=}
  git revert --no-commit "$commit" >/dev/null 2>&1 || { echo "$commit $p: cannot revert cleanly (skipped)"; git revert --abort 2>/dev/null; git checkout -- . ; continue; }
  out=$(cd /verif && ./check "$p" 2>/dev/null)
  v=$(echo "$out" | grep -c '^VIOLATION')
  rule=$(echo "$out" | grep -A1 '^VIOLATION' | grep 'rule' | head -1 | cut -c1-110)
  echo "$commit $p: violations=$v $rule"
  git revert --abort 2>/dev/null; git reset -q --hard HEAD
done
git status --short | head -2
