"""tools/show_rule.py <PROP> <RULE> : print every finding (ok or not) of one rule from the facts last extracted (config default)"""
import sys, os, importlib
sys.path.insert(0, os.path.dirname(os.path.dirname(os.path.abspath(__file__))))
from rxcheck.facts import Facts
from rxcheck import extract
from rxcheck.core import Cx
F = Facts(extract.facts_path('default')); cx = Cx(F, "default"); cx.control = False
m = importlib.import_module('rxcheck.props.' + sys.argv[1].lower())
for f in m.check(cx):
    if f.rule == sys.argv[2]:
        print('OK ' if f.ok else 'BAD', f.key, '::', f.msg[:300])
