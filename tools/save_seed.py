#!/usr/bin/env python3
"""tools/save_seed.py <cNN> [name]: copy a verified seeded change from /tmp/seed/<cNN>/_seed into /verif/seeded/<name>/,
run every check against it (applied to /repo, reverted afterwards) and record which checks report it."""
import json, os, shutil, subprocess, sys
c = sys.argv[1]
name = sys.argv[2] if len(sys.argv) > 2 else c.upper()
src = '/tmp/seed/%s/_seed' % c
dst = '/verif/seeded/%s' % name
os.makedirs(dst, exist_ok=True)
shutil.copyfile(src + '/patch.diff', dst + '/patch.diff')
shutil.copyfile(src + '/seed_demo.rs', dst + '/seed_demo.rs')
meta = json.load(open(src + '/meta.json'))
ver = [l for l in open(__import__('os').environ.get('VERIFY_LOG', '/tmp/seed/verify.log')) if l.startswith(c + ' ')]
meta['verified_by_me'] = ver[-1].strip() if ver else 'not verified'
out = subprocess.run(['/verif/tools/try_patch.sh', dst + '/patch.diff'], stdout=subprocess.PIPE).stdout.decode('utf-8', 'replace')
det = {}
cur = None
for l in out.splitlines():
    if l.startswith('C') and 'exit=' in l:
        cur = l.split()[0]
        det[cur] = []
    elif l.strip().startswith('rule') and cur:
        det[cur].append(l.strip()[5:].split(':')[0][:160])
meta['detected_by'] = det
meta['what_i_ran'] = ['tools/../verify.sh %s: cargo test --offline --lib with the change; cargo test --offline --test seed_demo with and without the change' % c,
                      'tools/try_patch.sh seeded/%s/patch.diff (git -C /repo apply; ./check C01..C20 --tier quick; git -C /repo checkout -- .)' % name]
json.dump(meta, open(dst + '/meta.json', 'w'), indent=1)
print(name, 'detected by', {k: len(v) for k, v in det.items()})
