#!/usr/bin/env python3
"""tools/try_pending.py [cNN ...]: run all 20 checks against pending seeds /tmp/seed/cNN/_seed/patch.diff on scratch copies
(RXCHECK_REPO; never touches /repo), in parallel; prints per seed the checks that fire and the rule ids."""
import concurrent.futures as cf, glob, os, re, shutil, subprocess, sys, tempfile
VERIF = os.path.dirname(os.path.dirname(os.path.abspath(__file__)))
BASE = tempfile.mkdtemp(prefix='rxpend-')
ALL = ['C%02d' % i for i in range(1, 21)]


def run(c):
    patch = '/tmp/seed/%s/_seed/patch.diff' % c
    if not os.path.exists(patch):
        return c, '(no seed yet)'
    d = os.path.join(BASE, c)
    os.makedirs(d)
    for f in ('Cargo.toml', 'Cargo.lock', 'README.md'):
        shutil.copyfile(os.path.join('/repo', f), os.path.join(d, f))
    shutil.copytree('/repo/src', os.path.join(d, 'src'))
    r = subprocess.run(['patch', '-p1', '-s', '-i', patch], cwd=d, stdout=subprocess.PIPE, stderr=subprocess.STDOUT, text=True)
    if r.returncode != 0:
        return c, 'PATCH DOES NOT APPLY ' + r.stdout[-200:]
    env = dict(os.environ, RXCHECK_REPO=d)
    out = []
    for p in ALL:
        x = subprocess.run([os.path.join(VERIF, 'check'), p], env=env, stdout=subprocess.PIPE, stderr=subprocess.DEVNULL)
        o = x.stdout.decode('utf-8', 'replace')
        if x.returncode != 0:
            rules = sorted(set(re.findall(r'rule[ =]([A-Za-z0-9.\-]+)', o)))
            br = [l[:160] for l in o.splitlines() if l.startswith('CHECK-BROKEN')][:1]
            out.append('%s exit=%d %s %s' % (p, x.returncode, ','.join(rules), ' '.join(br)))
    shutil.rmtree(d, ignore_errors=True)
    return c, ' | '.join(out) or 'SILENT'


cs = sys.argv[1:] or ['c%02d' % i for i in range(1, 21)]
with cf.ThreadPoolExecutor(max_workers=int(os.environ.get('JOBS', '6'))) as ex:
    for c, r in ex.map(run, cs):
        print('%s: %s' % (c, r), flush=True)
shutil.rmtree(BASE, ignore_errors=True)
