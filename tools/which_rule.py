#!/usr/bin/env python3
"""tools/which_rule.py <PROP> <RULE>: which kept seeded changes does rule <RULE> of check <PROP> report? (scratch copies)"""
import glob, os, shutil, subprocess, sys, tempfile, concurrent.futures as cf
VERIF = os.path.dirname(os.path.dirname(os.path.abspath(__file__)))
prop, rule = sys.argv[1], sys.argv[2]
base = tempfile.mkdtemp(prefix='rxwr-')
def run(p):
    name = os.path.basename(os.path.dirname(p)); d = os.path.join(base, name); os.makedirs(d)
    for f in ('Cargo.toml', 'Cargo.lock', 'README.md'): shutil.copyfile(os.path.join('/repo', f), os.path.join(d, f))
    shutil.copytree('/repo/src', os.path.join(d, 'src'))
    if subprocess.run(['patch', '-p1', '-s', '-i', p], cwd=d, stdout=subprocess.DEVNULL, stderr=subprocess.DEVNULL).returncode: return name, None
    c = subprocess.run([os.path.join(VERIF, 'check'), prop], env=dict(os.environ, RXCHECK_REPO=d, RXCHECK_NESTED='1'), stdout=subprocess.PIPE, stderr=subprocess.DEVNULL)
    shutil.rmtree(d, ignore_errors=True)
    return name, ('rule %s|' % rule) in c.stdout.decode('utf-8', 'replace')
with cf.ThreadPoolExecutor(8) as ex:
    hits = [n for n, h in ex.map(run, sorted(glob.glob(os.path.join(VERIF, 'seeded', '*', 'patch.diff')))) if h]
shutil.rmtree(base, ignore_errors=True)
print(prop, rule, 'reports', len(hits), 'seeds:', ' '.join(hits))
