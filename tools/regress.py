#!/usr/bin/env python3
"""Parallel regression of the checkers (never touches /repo): every patch is applied to a scratch copy of /repo's current tree
and the checks are run against the copy (RXCHECK_REPO).
  - seeded/<ID>/patch.diff must be reported (exit 1 + VIOLATION) by the check of its own property;
  - refactors/*.diff (behaviour-preserving) must leave all 20 checks silent (exit 0)."""
import concurrent.futures as cf, glob, os, shutil, subprocess, sys, tempfile
VERIF = os.path.dirname(os.path.dirname(os.path.abspath(__file__)))
REPO = '/repo'
BASE = tempfile.mkdtemp(prefix='rxreg-')
ALL = ['C%02d' % i for i in range(1, 21)]


def run_patch(patch, props):
    name = os.path.basename(os.path.dirname(patch)) if patch.endswith('patch.diff') else os.path.basename(patch)
    d = os.path.join(BASE, name)
    os.makedirs(d)
    for f in ('Cargo.toml', 'Cargo.lock', 'README.md'):
        shutil.copyfile(os.path.join(REPO, f), os.path.join(d, f))
    shutil.copytree(os.path.join(REPO, 'src'), os.path.join(d, 'src'))
    r = subprocess.run(['git', 'apply', '--unsafe-paths', '--directory=' + d, patch], cwd='/', stdout=subprocess.PIPE, stderr=subprocess.STDOUT, text=True)
    if r.returncode != 0:
        r = subprocess.run(['patch', '-p1', '-s', '-i', patch], cwd=d, stdout=subprocess.PIPE, stderr=subprocess.STDOUT, text=True)
        if r.returncode != 0:
            return name, None, 'patch does not apply: ' + r.stdout[-200:]
    env = dict(os.environ, RXCHECK_REPO=d)
    res = {}
    for p in props:
        c = subprocess.run([os.path.join(VERIF, 'check'), p], env=env, stdout=subprocess.PIPE, stderr=subprocess.DEVNULL)
        out = c.stdout.decode('utf-8', 'replace')
        res[p] = (c.returncode, out.count('\nVIOLATION') + out.startswith('VIOLATION'), [l for l in out.splitlines() if l.startswith('CHECK-BROKEN')][:1])
    shutil.rmtree(d, ignore_errors=True)
    return name, res, ''


def main():
    jobs = []
    for p in sorted(glob.glob(os.path.join(VERIF, 'seeded', '*', 'patch.diff'))):
        prop = os.path.basename(os.path.dirname(p))[:3]
        jobs.append(('seed', p, [prop]))
    for p in sorted(glob.glob(os.path.join(VERIF, 'refactors', '*.diff'))):
        jobs.append(('refactor', p, ALL))
    fail = 0
    with cf.ThreadPoolExecutor(max_workers=int(os.environ.get('JOBS', '8'))) as ex:
        futs = {ex.submit(run_patch, p, props): (kind, p, props) for kind, p, props in jobs}
        for fu in cf.as_completed(futs):
            kind, p, props = futs[fu]
            name, res, err = fu.result()
            if res is None:
                print('%s %s: %s' % (kind, name, err)); fail = 1; continue
            if kind == 'seed':
                code, nv, br = res[props[0]]
                ok = code == 1 and nv > 0
                print('seed %-6s %s by %s (%d report(s))' % (name, 'detected' if ok else 'NOT DETECTED', props[0], nv))
                fail |= (not ok)
            else:
                noisy = {k: v for k, v in res.items() if v[0] != 0}
                print('refactor %-12s %s' % (name, 'silent' if not noisy else 'ALARM %s' % noisy))
                fail |= bool(noisy)
    shutil.rmtree(BASE, ignore_errors=True)
    # evidence files were rewritten against scratch copies: restore them from the real tree
    print('re-run ./check on /repo to refresh evidence/ before committing')
    return fail


if __name__ == '__main__':
    sys.exit(main())
