#!/usr/bin/env python3
"""tools/regress_targeted.py: the refactorings whose diff touches a file (or an is_finished body) that a rule changed in this round reads,
each run against the checks of the properties those rules belong to (a subset of tools/regress.py, for a short time budget);
plus every seed of those properties against its own check."""
import concurrent.futures as cf, glob, os, re, sys
sys.path.insert(0, os.path.dirname(os.path.abspath(__file__)))
import regress
MAP = [(r'^\+\+\+ b/src/ops/group_by\.rs', ['C16', 'C20', 'C03']), (r'^\+\+\+ b/src/ops/finalize\.rs', ['C15']),
       (r'^\+\+\+ b/src/ops/complete_status\.rs', ['C14', 'C10']), (r'^\+\+\+ b/src/ops/with_latest_from\.rs', ['C04']),
       (r'^\+\+\+ b/src/subject/behavior_subject\.rs', ['C12']), (r'^\+\+\+ b/src/ops/delay\.rs', ['C07']),
       (r'^\+\+\+ b/src/(ops/ref_count|subject)\.rs', ['C11']), (r'^\+.*is_finished', ['C16', 'C03', 'C20'])]
PROPS = {'C03', 'C04', 'C07', 'C11', 'C12', 'C14', 'C15', 'C16', 'C20'}
jobs = []
if 'seeds' in sys.argv[1:] or not sys.argv[1:]:
    for p in sorted(glob.glob('/verif/seeded/*/patch.diff')):
        prop = os.path.basename(os.path.dirname(p))[:3]
        if prop in PROPS:
            jobs.append(('seed', p, [prop]))
if 'refactors' in sys.argv[1:] or not sys.argv[1:]:
    for p in sorted(glob.glob('/verif/refactors/*.diff')):
        t = open(p, errors='replace').read()
        props = sorted({q for rx, ps in MAP if re.search(rx, t, re.M) for q in ps})
        if props:
            jobs.append(('refactor', p, props))
print(len(jobs), 'jobs', flush=True)
fail = 0
with cf.ThreadPoolExecutor(max_workers=int(os.environ.get('JOBS', '12'))) as ex:
    futs = {ex.submit(regress.run_patch, p, props): (kind, p, props) for kind, p, props in jobs}
    for fu in cf.as_completed(futs):
        kind, p, props = futs[fu]
        name, res, err = fu.result()
        if res is None:
            print(kind, name, err, flush=True); fail = 1; continue
        if kind == 'seed':
            code, nv, br = res[props[0]]
            ok = code == 1 and nv > 0
            if not ok:
                print('seed %s NOT DETECTED by %s %s' % (name, props[0], br), flush=True); fail = 1
        else:
            noisy = {k: v for k, v in res.items() if v[0] != 0}
            if noisy:
                print('refactor %s ALARM %s' % (name, noisy), flush=True); fail = 1
print('done fail=%d' % fail, flush=True)
