#!/bin/sh
# tools/try_patch.sh <patch.diff> [tier]: apply a patch to /repo, run every check, print which ones fire, revert.
P="$1"; TIER="${2:-quick}"
cd /repo || exit 2
if ! git diff --quiet; then echo "/repo has uncommitted changes; refusing"; exit 2; fi
git apply "$P" || { echo "PATCH DOES NOT APPLY"; exit 2; }
cd /verif
for i in 01 02 03 04 05 06 07 08 09 10 11 12 13 14 15 16 17 18 19 20; do
  out=$(./check C$i --tier $TIER 2>/dev/null)
  code=$?
  v=$(echo "$out" | grep -c '^VIOLATION')
  if [ $code -ne 0 ]; then
    echo "C$i exit=$code violations=$v"
    echo "$out" | grep -A1 '^VIOLATION\|^CHECK-BROKEN' | grep -v '^--' | cut -c1-260 | head -8
  fi
done
cd /repo && git checkout -- . && git status --short | head -3
