import sys, os
sys.path.insert(0, os.path.dirname(os.path.dirname(os.path.abspath(__file__))))
from rxcheck.facts import Facts
from rxcheck import extract, prov
from rxcheck.core import Cx
F=Facts(extract.facts_path('default')); cx=Cx(F,'default')
by={fn['path']:fn for fn in F.fns.values() if fn['kind'] not in ('closure','coroutine')}
for p in sys.argv[1:]:
    fn=by.get('observable::ObservableExt::'+p) or F.fns.get(p)
    g=cx.graph(fn['key'], defaults=True)
    sums,_=prov.summaries(g, item_arg=0, maxd=40)
    print('==',p,len(sums))
    for sm,key in sums:
        print('   ret:', sm['store'].get(('L',0)))
        print('   conds:', sm['conds'])
