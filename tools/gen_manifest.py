#!/usr/bin/env python3
"""Regenerates /verif/MANIFEST.json from the rule-set modules in rxcheck/props (one check per
implemented property; unimplemented or declined properties go to not_applicable)."""
import importlib, json, os, sys
VERIF = os.path.dirname(os.path.dirname(os.path.abspath(__file__)))
sys.path.insert(0, VERIF)
checks, na = [], []
for i in range(1, 21):
    pid = 'C%02d' % i
    try:
        m = importlib.import_module('rxcheck.props.' + pid.lower())
    except ModuleNotFoundError:
        na.append({'property_id': pid, 'reason': 'no static check registered yet for this property (see DESIGN.md §3 for the clauses planned)'})
        continue
    if getattr(m, 'NOT_APPLICABLE', None):
        na.append({'property_id': pid, 'reason': m.NOT_APPLICABLE})
        continue
    checks.append({
        'property_id': pid,
        'quick_cmd': './check %s --tier quick' % pid,
        'thorough_cmd': './check %s --tier thorough' % pid,
        'evidence_file': 'evidence/%s.json' % pid,
        'replay_cmd_template': './check %s --replay {path}' % pid,
        'engine': 'rxlint+rxcheck',
        'level_claimed': {'category': m.LEVEL, 'text': m.EXPLANATION, 'design_ref': 'DESIGN.md §3 ' + pid},
        'level_note': 'Trusted: rustc nightly MIR as dumped by rxlint, the role tables in rxcheck/roles.py, documented behaviour of std/futures primitives. ' + ' '.join(getattr(m, 'ASSUMPTIONS', [])),
        'technique': getattr(m, 'TECHNIQUE', 'static analysis: rule automata over MIR event graphs (custom rustc_private driver)'),
    })
man = {
    'version': 1,
    'setup_cmd': 'cd rxlint && CARGO_NET_OFFLINE=true cargo build --release --offline',
    'hooks': {'guard': 'rxrust_verif', 'enable': 'none needed: static analysis reads the source, no instrumentation is compiled in',
              'baseline_off_cmd': 'cd /repo && cargo test --workspace --no-fail-fast --offline', 'source_commits': [], 'add_only': True},
    'engines': [
        {'name': 'rxlint', 'path': 'rxlint/', 'serves_properties': [c['property_id'] for c in checks], 'kind_free_text': 'rustc_private driver: dumps MIR-lite facts (types, bodies, impls, ADTs) of /repo as JSON'},
        {'name': 'rxcheck', 'path': 'rxcheck/', 'serves_properties': [c['property_id'] for c in checks], 'kind_free_text': 'stdlib-Python rule checker: inlined event graphs, rule automata, role tables, positive controls'},
    ],
    'checks': checks,
    'not_applicable': na,
    'notes': 'All checks are static (nothing executes rxRust code). See DESIGN.md. Known findings: known_findings.txt.',
}
json.dump(man, open(os.path.join(VERIF, 'MANIFEST.json'), 'w'), indent=1)
print('checks:', [c['property_id'] for c in checks], 'n/a:', [n['property_id'] for n in na])
