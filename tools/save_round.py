#!/usr/bin/env python3
"""tools/save_round.py <suffix> cNN...: save verified pending seeds /tmp/seed/cNN/_seed as /verif/seeded/CNN-<suffix>/, recording which of
the 20 checks report each (run on scratch copies with RXCHECK_REPO, in parallel; /repo is not touched)."""
import concurrent.futures as cf, json, os, re, shutil, subprocess, sys, tempfile
VERIF = '/verif'
BASE = tempfile.mkdtemp(prefix='rxsave-')
ALL = ['C%02d' % i for i in range(1, 21)]
suffix = sys.argv[1]


def run(c):
    src = '/tmp/seed/%s/_seed' % c
    name = '%s-%s' % (c.upper(), suffix)
    dst = '/verif/seeded/' + name
    d = os.path.join(BASE, c)
    os.makedirs(d)
    for f in ('Cargo.toml', 'Cargo.lock', 'README.md'):
        shutil.copyfile(os.path.join('/repo', f), os.path.join(d, f))
    shutil.copytree('/repo/src', os.path.join(d, 'src'))
    r = subprocess.run(['patch', '-p1', '-s', '-i', src + '/patch.diff'], cwd=d, stdout=subprocess.PIPE, stderr=subprocess.STDOUT, text=True)
    if r.returncode != 0:
        return name, 'PATCH DOES NOT APPLY'
    env = dict(os.environ, RXCHECK_REPO=d)
    det = {}
    for p in ALL:
        x = subprocess.run([os.path.join(VERIF, 'check'), p], env=env, stdout=subprocess.PIPE, stderr=subprocess.DEVNULL)
        o = x.stdout.decode('utf-8', 'replace')
        if x.returncode != 0:
            det[p] = [l.strip()[5:].split(':')[0][:160] for l in o.splitlines() if l.strip().startswith('rule ')]
    shutil.rmtree(d, ignore_errors=True)
    os.makedirs(dst, exist_ok=True)
    shutil.copyfile(src + '/patch.diff', dst + '/patch.diff')
    shutil.copyfile(src + '/seed_demo.rs', dst + '/seed_demo.rs')
    meta = json.load(open(src + '/meta.json'))
    ver = [l for l in open('/tmp/seed/verify.log') if l.startswith(c + ' ')]
    meta['verified_by_me'] = ver[-1].strip() if ver else 'not verified'
    meta['detected_by'] = det
    meta['what_i_ran'] = ['/tmp/seed/verify.sh %s: cargo test --offline --lib with the change (shared_smoke skipped: known flaky); cargo test --offline --test seed_demo with and without the change' % c,
                          'tools/save_round.py: patch applied to a scratch copy of /repo; RXCHECK_REPO=<copy> ./check C01..C20 --tier quick']
    json.dump(meta, open(dst + '/meta.json', 'w'), indent=1)
    return name, {k: sorted(set(x.split('|')[0] for x in v)) for k, v in det.items()}


with cf.ThreadPoolExecutor(max_workers=int(os.environ.get('JOBS', '6'))) as ex:
    for name, r in ex.map(run, sys.argv[2:]):
        print(name, r, flush=True)
shutil.rmtree(BASE, ignore_errors=True)
