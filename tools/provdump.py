import sys, os
sys.path.insert(0, os.path.dirname(os.path.dirname(os.path.abspath(__file__))))
import sys
from rxcheck.facts import Facts
from rxcheck import extract, roles, prov
from rxcheck.core import Cx
F=Facts(extract.facts_path('default')); cx=Cx(F,'default'); cx.control=False
pats=sys.argv[1:]
for fn in F.fns.values():
    l=cx.label(fn)
    if any(p in l for p in pats):
        g=cx.graph(fn['key'])
        sums,pred=prov.summaries(g)
        print('=====',l,len(sums))
        for sm,key in sums:
            print('  events:', [ (e[0], e[1], prov.show(e[2]) if len(e)>2 and e[2] is not None else '') for e in sm['events']])
            print('  ucalls:', [ (c[0], prov.show(c[1])) for c in sm['ucalls']])
            print('  conds :', [ (prov.show(c[0]), c[1]) for c in sm['conds']])
            print('  store :', {k:prov.show(v) for k,v in sm['store'].items() if k[0]=='S'})
            print()
