#!/bin/sh
# Regression of the checkers themselves:
#  - every seeded change in seeded/<ID>*/patch.diff must be reported by the check of its own property;
#  - every behaviour-preserving refactoring in refactors/*.diff must leave all 20 checks silent.
# Each patch is applied to /repo, checked and reverted (git checkout -- .).
cd /verif || exit 2
fail=0
for d in seeded/*/; do
  id=$(basename "$d"); prop=$(echo "$id" | cut -c1-3)
  out=$(tools/try_patch.sh "/verif/${d}patch.diff")
  if echo "$out" | grep -q "^$prop exit=1"; then echo "seed $id: detected by $prop ($(echo "$out" | grep -c 'rule') report(s) in $(echo "$out" | grep -c '^C') check(s))"; else echo "seed $id: NOT detected by $prop"; echo "$out" | head -5; fail=1; fi
done
for p in refactors/*.diff; do
  out=$(tools/try_patch.sh "/verif/$p")
  if [ -n "$out" ]; then echo "refactor $p: ALARM"; echo "$out" | head -6; fail=1; else echo "refactor $p: silent"; fi
done
exit $fail
