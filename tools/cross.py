#!/usr/bin/env python3
"""tools/cross.py: for every kept seeded change, which rules of which checks report it (scratch copies; never touches /repo)"""
import glob, os, re, shutil, subprocess, sys, tempfile, concurrent.futures as cf
VERIF = os.path.dirname(os.path.dirname(os.path.abspath(__file__)))
ALL = ['C%02d' % i for i in range(1, 21)]
base = tempfile.mkdtemp(prefix='rxcross-')
def run(p):
    name = os.path.basename(os.path.dirname(p)); d = os.path.join(base, name); os.makedirs(d)
    for f in ('Cargo.toml', 'Cargo.lock', 'README.md'): shutil.copyfile(os.path.join('/repo', f), os.path.join(d, f))
    shutil.copytree('/repo/src', os.path.join(d, 'src'))
    if subprocess.run(['patch', '-p1', '-s', '-i', p], cwd=d, stdout=subprocess.DEVNULL, stderr=subprocess.DEVNULL).returncode: return name, None
    out = {}
    for prop in ALL:
        c = subprocess.run([os.path.join(VERIF, 'check'), prop], env=dict(os.environ, RXCHECK_REPO=d, RXCHECK_NESTED='1'), stdout=subprocess.PIPE, stderr=subprocess.DEVNULL)
        rules = sorted(set(re.findall(r'^  rule ([A-Za-z0-9-]+)\|', c.stdout.decode('utf-8', 'replace'), re.M)))
        if rules or c.returncode not in (0,): out[prop] = (c.returncode, rules)
    shutil.rmtree(d, ignore_errors=True)
    return name, out
with cf.ThreadPoolExecutor(12) as ex:
    for name, out in ex.map(run, sorted(glob.glob(os.path.join(VERIF, 'seeded', '*', 'patch.diff')))):
        own = name[:3]
        others = {k: v for k, v in (out or {}).items() if k != own}
        print(name, 'own:', (out or {}).get(own), 'others:', ' '.join('%s%s' % (k, v[1] if v[0] == 1 else '(exit %d)' % v[0]) for k, v in sorted(others.items())))
shutil.rmtree(base, ignore_errors=True)
