"""tools/graphdump.py <fn key substring> : print the inlined event graph of the functions whose label contains the substring
(uses the facts last extracted for config 'default'; run a check first so they are fresh)"""
import sys, os
sys.path.insert(0, os.path.dirname(os.path.dirname(os.path.abspath(__file__))))
from rxcheck.facts import Facts
from rxcheck import extract
from rxcheck.core import Cx, node_desc
from rxcheck.expr import render
F = Facts(extract.facts_path('default')); cx = Cx(F, "default"); cx.control = False
fwd = '--forward' in sys.argv
for fn in F.fns.values():
    lab = cx.label(fn)
    if any(a in lab for a in sys.argv[1:] if not a.startswith('--')):
        g = cx.graph(fn['key'], forward=fwd)
        print('==', lab)
        for n in g.nodes:
            d = {k: v for k, v in n.items() if k in ('kind', 'name', 'lhs', 'rhs', 'discr', 'dest', 'value', 'args')}
            print(n['id'], n['kind'], n.get('name', ''), '|', ' ; '.join('%s=%s' % (k, render(v) if isinstance(v, tuple) else [render(x) for x in v] if isinstance(v, list) else v) for k, v in d.items() if k not in ('kind', 'name')), '->', [(m, l) for m, k, l in g.succs(n['id'])])
