#!/bin/sh
# tools/try_round.sh : run all 20 checks against every pending seed in /tmp/seed/cNN/_seed/patch.diff (applies to /repo, reverts)
for i in $(seq -w 2 20); do
  p=/tmp/seed/c$i/_seed/patch.diff
  [ -f "$p" ] || { echo "C$i: (no seed yet)"; continue; }
  r=$(/verif/tools/try_patch.sh $p 2>&1 | grep "exit=" | tr '\n' ' ')
  echo "C$i: ${r:-SILENT}"
done
