#!/usr/bin/env python3
"""Text-substitution mutants of /repo (applied to scratch copies, never to /repo). Each entry:
(name, file, old, new, property, expect) with expect 'fire' (the property's check must report a VIOLATION) or 'silent'
(behaviour-preserving variant: all listed properties must stay silent). Usage: tools/mutants.py [name-substring]"""
import concurrent.futures as cf, os, shutil, subprocess, sys, tempfile
VERIF = os.path.dirname(os.path.dirname(os.path.abspath(__file__)))
REPO = '/repo'
M = [
 # --- C03.S8 decision tables
 ('take-le', 'src/ops/take.rs', 'if self.hits < self.count {', 'if self.hits <= self.count {', 'C03', 'fire'),
 ('take-ge-complete', 'src/ops/take.rs', 'if self.hits == self.count {', 'if self.hits >= self.count {', 'C03', 'silent'),
 ('take-no-count', 'src/ops/take.rs', '        self.hits += 1;\n        observer.next(value);', '        observer.next(value);', 'C03', 'fire'),
 ('skip-ge', 'src/ops/skip.rs', 'if self.hits > self.count {', 'if self.hits >= self.count {', 'C03', 'fire'),
 ('skip-late-count', 'src/ops/skip.rs', '    self.hits += 1;\n    if self.hits > self.count {\n      self.observer.next(value);\n    }', '    if self.hits >= self.count {\n      self.observer.next(value);\n    }\n    self.hits += 1;', 'C03', 'silent'),
 ('filter-inverted', 'src/ops/filter.rs', 'if (self.filter)(&value) {', 'if !(self.filter)(&value) {', 'C03', 'fire'),
 ('take-while-no-inclusive', 'src/ops/take_while.rs', '        if self.inclusive {\n          observer.next(value);\n        }\n', '', 'C03', 'fire'),
 ('take-while-inclusive-inverted', 'src/ops/take_while.rs', 'if self.inclusive {', 'if !self.inclusive {', 'C03', 'fire'),
 ('skip-while-forget-done', 'src/ops/skip_while.rs', '      self.observer.next(value);\n      self.done_skipping = true;', '      self.observer.next(value);', 'C03', 'fire'),
 ('skip-while-pred-inverted', 'src/ops/skip_while.rs', '} else if !(self.predicate)(&value) {', '} else if (self.predicate)(&value) {', 'C03', 'fire'),
 ('skip-last-early', 'src/ops/skip_last.rs', 'if self.count_down == 0 {', 'if self.count_down <= 1 {', 'C03', 'fire'),
 # --- C03.S10 provenance definitions
 ('last-keeps-first', 'src/ops/last.rs', '    self.last = Some(value);', '    if self.last.is_none() {\n      self.last = Some(value);\n    }', 'C03', 'fire'),
 ('last-replace-form', 'src/ops/last.rs', '    self.last = Some(value);', '    self.last.replace(value);', 'C03', 'silent'),
 ('scan-emit-before-update', 'src/ops/scan.rs', '    self.acc = (self.binary_op)(self.acc.clone(), value);\n    self.target_observer.next(self.acc.clone())', '    self.target_observer.next(self.acc.clone());\n    self.acc = (self.binary_op)(self.acc.clone(), value);', 'C03', 'fire'),
 ('scan-named-local', 'src/ops/scan.rs', '    self.acc = (self.binary_op)(self.acc.clone(), value);\n    self.target_observer.next(self.acc.clone())', '    let next_acc = (self.binary_op)(self.acc.clone(), value);\n    self.acc = next_acc.clone();\n    self.target_observer.next(next_acc)', 'C03', 'silent'),
 ('default-if-empty-flag-kept', 'src/ops/default_if_empty.rs', '    if self.is_empty {\n      self.is_empty = false;\n    }', '', 'C03', 'fire'),
 ('default-if-empty-unconditional-clear', 'src/ops/default_if_empty.rs', '    if self.is_empty {\n      self.is_empty = false;\n    }', '    self.is_empty = false;', 'C03', 'silent'),
 ('default-if-empty-inverted', 'src/ops/default_if_empty.rs', '    if self.is_empty {\n      self.observer.next(self.default_value.clone());', '    if !self.is_empty {\n      self.observer.next(self.default_value.clone());', 'C03', 'fire'),
 ('pairwise-swapped', 'src/ops/pairwise.rs', 'self.observer.next((a.clone(), b.clone()));', 'self.observer.next((b.clone(), a.clone()));', 'C03', 'fire'),
 ('tap-after-forward', 'src/ops/tap.rs', '    (self.func)(&value);\n    self.observer.next(value)', '    self.observer.next(value);', 'C03', 'fire'),
 ('distinct-no-insert', 'src/ops/distinct.rs', '      self.seen.insert(value.clone());\n      self.observer.next(value);', '      self.observer.next(value);', 'C03', 'fire'),
 ('distinct-insert-form', 'src/ops/distinct.rs', '    if !self.seen.contains(&value) {\n      self.seen.insert(value.clone());\n      self.observer.next(value);\n    }', '    if self.seen.insert(value.clone()) {\n      self.observer.next(value);\n    }', 'C03', 'silent'),
 ('distinct-inverted', 'src/ops/distinct.rs', '    if !self.seen.contains(&value) {\n      self.seen.insert(value.clone());', '    if self.seen.contains(&value) {\n      self.seen.insert(value.clone());', 'C03', 'fire'),
 ('distinct-key-inserts-other', 'src/ops/distinct.rs', '    let key = (self.key)(&value);\n    if !self.seen.contains(&key) {\n      self.seen.insert(key);', '    let key = (self.key)(&value);\n    if !self.seen.contains(&key) {\n      self.seen.insert((self.key)(&value));', 'C03', 'silent'),
 ('contains-ne', 'src/ops/contains.rs', '    if self.target == value {', '    if self.target != value {', 'C03', 'fire'),
 ('contains-complete-true', 'src/ops/contains.rs', '      observer.next(false);', '      observer.next(true);', 'C03', 'fire'),
 ('buffer-count-gt', 'src/ops/buffer.rs', '    if self.buffer.data.len() >= self.count {', '    if self.buffer.data.len() > self.count {', 'C03', 'fire'),
 ('buffer-count-eq', 'src/ops/buffer.rs', '    if self.buffer.data.len() >= self.count {', '    if self.buffer.data.len() == self.count {', 'C03', 'silent'),
 ('map-twice', 'src/ops/map.rs', '    self.observer.next((self.map)(value))', '    let v = (self.map)(value);\n    self.observer.next(v)', 'C03', 'silent'),
 ('filter-map-drop-some', 'src/ops/filter_map.rs', '    if let Some(v) = (self.f)(value) {\n      self.down_observer.next(v)\n    }', '    if let None = (self.f)(value) {\n    }', 'C03', 'fire'),
 ('collect-drops-item', 'src/ops/collect.rs', '    self.collection.extend(Some(value));', '    let _ = value;', 'C03', 'fire'),
 # --- C03.S11 derived compositions
 ('all-empty-false', 'src/observable.rs', '    DefaultIfEmptyOp::new(take, true)', '    DefaultIfEmptyOp::new(take, false)', 'C03', 'fire'),
 ('element-at-off-by-one', 'src/observable.rs', '    TakeOp::new(self.skip(nth), 1)', '    TakeOp::new(self.skip(nth + 1), 1)', 'C03', 'fire'),
 ('element-at-via-first', 'src/observable.rs', '    TakeOp::new(self.skip(nth), 1)', '    self.skip(nth).first()', 'C03', 'silent'),
 ('max-uses-lt', 'src/observable.rs', '      Some(max) if max > v => Some(max),', '      Some(max) if max < v => Some(max),', 'C03', 'fire'),
 ('max-ge', 'src/observable.rs', '      Some(max) if max > v => Some(max),', '      Some(max) if max >= v => Some(max),', 'C03', 'silent'),
 ('count-adds-two', 'src/observable.rs', '    self.reduce(|acc, _v| acc + 1)', '    self.reduce(|acc, _v| acc + 2)', 'C03', 'fire'),
 ('take-while-inclusive-flag', 'src/observable.rs', 'TakeWhileOp { source: self, callback, inclusive: true }', 'TakeWhileOp { source: self, callback, inclusive: false }', 'C03', 'fire'),
 ('average-count-from-one', 'src/observable.rs', '    let start = (Item::default(), 0);', '    let start = (Item::default(), 1);', 'C03', 'fire'),
 # --- C03 envelopes
 ('last-flush-on-error', 'src/ops/last.rs', '  fn error(self, err: Err) {\n    self.observer.error(err)', '  fn error(mut self, err: Err) {\n    if let Some(v) = self.last.take() {\n      self.observer.next(v)\n    }\n    self.observer.error(err)', 'C03', 'fire'),
 ('default-if-empty-no-complete', 'src/ops/default_if_empty.rs', '    self.observer.complete()\n  }', '    if !self.is_empty {\n      self.observer.complete()\n    }\n  }', 'C03', 'fire'),
 ('map-swallow-error', 'src/ops/map.rs', '  fn error(self, err: Err) {\n    self.observer.error(err)\n  }', '  fn error(self, _err: Err) {\n    self.observer.complete()\n  }', 'C03', 'fire'),
 ('of-no-complete', 'src/observable/of.rs', '    observer.next(self.0);\n    observer.complete();', '    observer.next(self.0);', 'C03', 'fire'),
 # --- C04
 ('merge-forget-flag', 'src/ops/merge.rs', '          inner.completed_one = true;', '', 'C04', 'fire'),
 ('zip-swallow-error', 'src/ops/zip.rs', '      fn error(self, err: Err) {\n        if let Some(observer) = self.rc_deref_mut().observer.take() {\n          observer.error(err);\n        }', '      fn error(self, _err: Err) {\n        if let Some(observer) = self.rc_deref_mut().observer.take() {\n          observer.complete();\n        }', 'C04', 'fire'),
 ('combine-latest-forget-flag', 'src/ops/combine_latest.rs', '          inner.completed_one = true;', '', 'C04', 'fire'),
 # --- C04.M7 latest-value provenance
 ('combine-latest-store-after', 'src/ops/combine_latest.rs', '''        match value {
          CombineItem::ItemA(v) => {
            inner.a = Some(v);
          }
          CombineItem::ItemB(v) => {
            inner.b = Some(v);
          }
        }
        let CombineLatestObserver { observer, a, b, binary_op, .. } =
          &mut *inner;
        if let (Some(observer), Some(a), Some(b)) =
          (observer.as_mut(), a.clone(), b.clone())
        {
          observer.next(binary_op(a, b));
        }''', '''        {
          let CombineLatestObserver { observer, a, b, binary_op, .. } =
            &mut *inner;
          if let (Some(observer), Some(a), Some(b)) =
            (observer.as_mut(), a.clone(), b.clone())
          {
            observer.next(binary_op(a, b));
          }
        }
        match value {
          CombineItem::ItemA(v) => {
            inner.a = Some(v);
          }
          CombineItem::ItemB(v) => {
            inner.b = Some(v);
          }
        }''', 'C04', 'fire'),
 ('with-latest-b-keeps-first', 'src/ops/with_latest_from.rs', '    *self.value.rc_deref_mut() = Some(value);', '    let mut slot = self.value.rc_deref_mut();\n    if slot.is_none() {\n      *slot = Some(value);\n    }', 'C04', 'fire'),
 ('with-latest-b-replace-form', 'src/ops/with_latest_from.rs', '    *self.value.rc_deref_mut() = Some(value);', '    self.value.rc_deref_mut().replace(value);', 'C04', 'silent'),
 ('sample-source-keeps-first', 'src/ops/sample.rs', '    *self.value.rc_deref_mut() = Some(value);', '    let mut slot = self.value.rc_deref_mut();\n    if slot.is_none() {\n      *slot = Some(value);\n    }', 'C04', 'fire'),
 # --- C06
 ('subject-push-live', 'src/subject.rs', '      if let Some(chamber) = self.chamber.rc_deref_mut().as_mut() {\n        let subscriber = $subscriber::new(Some(observer));\n        chamber.push', '      if let Some(chamber) = self.observers.rc_deref_mut().as_mut() {\n        let subscriber = $subscriber::new(Some(observer));\n        chamber.push', 'C06', 'fire'),
 ('subject-no-load-in-next', 'src/subject.rs', '    fn next(&mut self, value: $item) {\n      self.load();', '    fn next(&mut self, value: $item) {', 'C06', 'fire'),
 ('subject-terminal-in-place', 'src/subject.rs', '    fn complete(mut self) {\n      self.load();\n      if let Some(observers) = self.observers.rc_deref_mut().take() {', '    fn complete(mut self) {\n      self.load();\n      if let Some(observers) = self.observers.rc_deref_mut().as_mut().map(std::mem::take) {', 'C06', 'fire'),
 # --- C08 / C19
 ('repeat-seq-plus-two', 'src/scheduler.rs', '          *this.seq += 1;', '          *this.seq += 2;', 'C08', 'fire'),
 ('repeat-no-rearm', 'src/scheduler.rs', '      let mut fur = new_timer(self.interval);\n      swap(&mut self.fur, &mut fur);', '', 'C08', 'fire'),
 ('once-task-no-take', 'src/scheduler.rs', '    let args = this.args.take().unwrap();\n    Poll::Ready((*this.func)(args))', '    let args = this.args.take().unwrap();\n    let r = (*this.func)(args);\n    Poll::Ready(r)', 'C19', 'silent'),
 ('schedule-skip-delay', 'src/scheduler.rs', '        if let Some(dur) = delay {\n          new_timer(dur).await;\n        }', '        if let Some(dur) = delay {\n          let _ = new_timer(dur);\n        }', 'C19', 'fire'),
 # --- C09
 ('debounce-no-flush', 'src/ops/debounce.rs', '    if let Some(value) = self.trailing_value.rc_deref_mut().take() {\n      self.observer.next(value);\n    }\n    self.observer.complete();', '    self.observer.complete();', 'C09', 'fire'),
 ('buffer-emit-unguarded', 'src/ops/buffer.rs', '    if !self.data.is_empty() {\n      let buffer = std::mem::take(&mut self.data);\n      self.observer.next(buffer);\n    }', '    let buffer = std::mem::take(&mut self.data);\n    self.observer.next(buffer);', 'C09', 'fire'),
 ('buffer-len-gt-zero', 'src/ops/buffer.rs', '    if !self.data.is_empty() {', '    if self.data.len() > 0 {', 'C09', 'silent'),
 # --- C09 debounce / throttle protocol
 ('debounce-no-cancel', 'src/ops/debounce.rs', '    if let Some(handler) = self.task_handler.rc_deref_mut().take() {\n      handler.unsubscribe()\n    }\n', '', 'C09', 'fire'),
 ('debounce-no-delay', 'src/ops/debounce.rs', 'self.scheduler.schedule(task, Some(self.delay));', 'self.scheduler.schedule(task, None);', 'C09', 'fire'),
 ('debounce-store-after-schedule', 'src/ops/debounce.rs', '    *self.trailing_value.rc_deref_mut() = Some(value);\n    let observer = self.observer.clone();', '    let observer = self.observer.clone();', 'C09', 'fire'),
 # --- C11 / C12 / C14 / C15 / C16 / C17
 ('share-connect-before-replace', 'src/ops/ref_count.rs', '          let connectable = std::mem::replace(&mut *inner, connected);', '          let connectable = std::mem::replace(&mut *inner, connected);\n          drop(inner);', 'C11', 'fire'),
 ('behavior-broadcast-first', 'src/subject/behavior_subject.rs', '    *self.value.rc_deref_mut() = value.clone();\n    Observer::next(&mut self.subject, value);', '    Observer::next(&mut self.subject, value.clone());\n    *self.value.rc_deref_mut() = value;', 'C12', 'fire'),
 ('status-wake-before-store', 'src/ops/complete_status.rs', '    self.status.flag.store(1, Ordering::Relaxed);\n    self.status.waker.wake();', '    self.status.waker.wake();\n    self.status.flag.store(1, Ordering::Relaxed);', 'C14', 'fire'),
 ('finalize-before-terminal', 'src/ops/finalize.rs', '  fn complete(self) {\n    self.observer.complete();\n    if let Some(func) = self.func.rc_deref_mut().take() {\n      func()\n    }', '  fn complete(self) {\n    if let Some(func) = self.func.rc_deref_mut().take() {\n      func()\n    }\n    self.observer.complete();', 'C15', 'fire'),
 ('map-const-finished', 'src/ops/map.rs', '  fn is_finished(&self) -> bool {\n    self.observer.is_finished()', '  fn is_finished(&self) -> bool {\n    false', 'C16', 'fire'),
 ('interval-no-check', 'src/observable/interval.rs', '  if !observer.is_finished() {\n    observer.next(seq);\n    true\n  } else {\n    false\n  }', '  observer.next(seq);\n  true', 'C16', 'fire'),
 ('multi-is-closed-any', 'src/subscription.rs', 'm.iter().all(|u| u.as_ref().map_or(true, |v| v.is_closed()))', 'm.iter().any(|u| u.as_ref().map_or(true, |v| v.is_closed()))', 'C17', 'fire'),
 # --- C02 / C07 / C10 / C18 / C20
 ('delay-drop-handle', 'src/ops/delay.rs', '        let handler = self.scheduler.schedule(task, Some(self.delay));\n        self.subscription.append($box_unsub::new(handler));\n      }\n\n      #[inline]\n      fn error', '        let _handler = self.scheduler.schedule(task, Some(self.delay));\n      }\n\n      #[inline]\n      fn error', 'C02', 'fire'),
 ('observe-on-with-delay', 'src/ops/observe_on.rs', 'let handler = self.scheduler.schedule(task, None);\n        self.subscription.append($box_unsub::new(handler));\n      }\n\n      #[inline]\n      fn error', 'let handler = self.scheduler.schedule(task, Some(Duration::from_millis(1)));\n        self.subscription.append($box_unsub::new(handler));\n      }\n\n      #[inline]\n      fn error', 'C07', 'fire'),
 ('group-by-announce-after', 'src/ops/group_by.rs', '      self.observer.next(wrapper);\n      subject\n    });\n    subject.next(value);', '      subject\n    });\n    subject.next(value);', 'C20', 'fire'),
 ('threads-twin-diverges', 'src/ops/skip_until.rs', '  fn is_skipping(&self) -> bool {\n    self.skip.load(Ordering::Relaxed)', '  fn is_skipping(&self) -> bool {\n    !self.skip.load(Ordering::Relaxed)', 'C18', 'fire'),
 # --- round 7 / sweep 5: snapshots of the counter (tables.py linear values), new rules T2-trunc, I6, R10, N6
 ('take-snapshot-last', 'src/ops/take.rs', '        self.hits += 1;\n        observer.next(value);\n        if self.hits == self.count {', '        let is_last = self.hits + 1 == self.count;\n        self.hits += 1;\n        observer.next(value);\n        if is_last {', 'C03', 'silent'),
 ('take-snapshot-stale', 'src/ops/take.rs', '        self.hits += 1;\n        observer.next(value);\n        if self.hits == self.count {', '        self.hits += 1;\n        let is_last = self.hits + 1 == self.count;\n        observer.next(value);\n        if is_last {', 'C03', 'fire'),
 ('skip-snapshot', 'src/ops/skip.rs', '    self.hits += 1;\n    if self.hits > self.count {', '    let seen_before = self.hits;\n    self.hits += 1;\n    if seen_before >= self.count {', 'C03', 'silent'),
 ('skip-snapshot-gt', 'src/ops/skip.rs', '    self.hits += 1;\n    if self.hits > self.count {', '    let seen_before = self.hits;\n    self.hits += 1;\n    if seen_before > self.count {', 'C03', 'fire'),
 ('skip-last-checked-sub', 'src/ops/skip_last.rs', '    if self.count_down == 0 {\n      self.observer.next(self.queue.pop_front().unwrap());\n    } else {\n      self.count_down -= 1;\n    }', '    match self.count_down.checked_sub(1) {\n      Some(left) => self.count_down = left,\n      None => self.observer.next(self.queue.pop_front().unwrap()),\n    }', 'C03', 'silent'),
 ('skip-last-checked-sub-2', 'src/ops/skip_last.rs', '    if self.count_down == 0 {\n      self.observer.next(self.queue.pop_front().unwrap());\n    } else {\n      self.count_down -= 1;\n    }', '    match self.count_down.checked_sub(2) {\n      Some(left) => self.count_down = left,\n      None => self.observer.next(self.queue.pop_front().unwrap()),\n    }', 'C03', 'fire'),
 ('delay-at-whole-secs', 'src/observable.rs', '      delay: at.saturating_duration_since(Instant::now()),', '      delay: Duration::from_secs(at.saturating_duration_since(Instant::now()).as_secs()),', 'C07', 'fire'),
 ('futuretask-take-on-pending', 'src/scheduler.rs', '        Poll::Ready((*this.task)(v, args))\n      }\n      Poll::Pending => Poll::Pending,', '        Poll::Ready((*this.task)(v, args))\n      }\n      Poll::Pending => {\n        let _ = this.args.take();\n        Poll::Pending\n      }', 'C08', 'fire'),
 ('status-completed-ge', 'src/ops/complete_status.rs', '  pub fn is_completed(&self) -> bool {\n    self.flag.load(Ordering::Relaxed) > 0', '  pub fn is_completed(&self) -> bool {\n    self.flag.load(Ordering::Relaxed) >= 0', 'C14', 'fire'),
 ('status-error-eq', 'src/ops/complete_status.rs', '  pub fn error_occur(&self) -> bool {\n    self.flag.load(Ordering::Relaxed) < 0', '  pub fn error_occur(&self) -> bool {\n    self.flag.load(Ordering::Relaxed) == -1', 'C14', 'silent'),
 ('status-error-stores-2', 'src/ops/complete_status.rs', '    self.status.flag.store(-1, Ordering::Relaxed);', '    self.status.flag.store(2, Ordering::Relaxed);', 'C14', 'fire'),
 ('finalize-unsub-under-guard', 'src/ops/finalize.rs', '    self.subscription.unsubscribe();\n    if let Some(func) = self.func.rc_deref_mut().take() {\n      func()\n    }', '    let mut slot = self.func.rc_deref_mut();\n    self.subscription.unsubscribe();\n    if let Some(func) = slot.take() {\n      func()\n    }', 'C15', 'fire'),
 ('share-relock-before-replace', 'src/ops/ref_count.rs', '          let connected = InnerShareOp::Connected(subject.clone());\n          let connectable = std::mem::replace(&mut *inner, connected);', '          let connected = InnerShareOp::Connected(subject.clone());\n          drop(inner);\n          let mut inner = self.0.rc_deref_mut();\n          let connectable = std::mem::replace(&mut *inner, connected);', 'C10', 'fire'),
 ('delay-at-rebuild-lossless', 'src/observable.rs', '      delay: at.saturating_duration_since(Instant::now()),', '      delay: { let d = at.saturating_duration_since(Instant::now()); Duration::new(d.as_secs(), d.subsec_nanos()) },', 'C07', 'silent', 'all'),
 ('delay-at-whole-millis-all', 'src/observable.rs', '      delay: at.saturating_duration_since(Instant::now()),', '      delay: Duration::from_millis(at.saturating_duration_since(Instant::now()).as_millis() as u64),', 'C07', 'fire', 'all'),
 # --- round 8 rules: H2 captures, S14 put-back, E2 loop exit, P-g, Z7
 ('schedule-halved-delay', 'src/scheduler.rs', '      let fut = async move {\n        if let Some(dur) = delay {', '      let delay = delay.map(|d| d / 2);\n      let fut = async move {\n        if let Some(dur) = delay {', 'C19', 'fire'),
 ('schedule-renamed-capture', 'src/scheduler.rs', '      let fut = async move {\n        if let Some(dur) = delay {\n          new_timer(dur).await;\n        }\n        task.await\n      };', '      let fut = async move {\n        match delay {\n          Some(dur) => new_timer(dur).await,\n          None => {}\n        }\n        task.await\n      };', 'C19', 'silent'),
 ('from-iter-while-let', 'src/observable/from_iter.rs', '    for v in self.0.into_iter() {\n      if observer.is_finished() {\n        break;\n      }\n      observer.next(v);\n    }', '    let mut it = self.0.into_iter();\n    while let Some(v) = it.next() {\n      if observer.is_finished() {\n        break;\n      }\n      observer.next(v);\n    }', 'C16', 'silent'),
 ('from-iter-continue', 'src/observable/from_iter.rs', '      if observer.is_finished() {\n        break;\n      }', '      if observer.is_finished() {\n        continue;\n      }', 'C16', 'fire'),
]
ALL = ['C%02d' % i for i in range(1, 21)]


def run(m):
    name, file, old, new, prop, expect = m[:6]
    every = len(m) > 6 and m[6] == 'all'      # replace every occurrence (both twins of a pair), not only the first
    base = tempfile.mkdtemp(prefix='rxmut-')
    d = os.path.join(base, name)
    os.makedirs(d)
    for f in ('Cargo.toml', 'Cargo.lock', 'README.md'):
        shutil.copyfile(os.path.join(REPO, f), os.path.join(d, f))
    shutil.copytree(os.path.join(REPO, 'src'), os.path.join(d, 'src'))
    p = os.path.join(d, file)
    s = open(p).read()
    if old not in s:
        shutil.rmtree(base, ignore_errors=True)
        return name, 'SKIPPED (pattern not found in current tree)', True
    open(p, 'w').write(s.replace(old, new) if every else s.replace(old, new, 1))
    env = dict(os.environ, RXCHECK_REPO=d, CARGO_NET_OFFLINE='true')
    c = subprocess.run(['cargo', 'check', '--offline', '--lib', '-q'], cwd=d, env=dict(env, CARGO_TARGET_DIR=os.path.join(VERIF, '.scratch', 'target-mutcheck')), stdout=subprocess.PIPE, stderr=subprocess.STDOUT)
    if c.returncode != 0:
        shutil.rmtree(base, ignore_errors=True)
        return name, 'DOES NOT COMPILE (bad mutant): ' + c.stdout.decode('utf-8', 'replace')[-300:], False
    props = [prop] if expect == 'fire' else ALL
    msgs = []
    ok = True
    for pr in props:
        r = subprocess.run([os.path.join(VERIF, 'check'), pr], env=env, stdout=subprocess.PIPE, stderr=subprocess.DEVNULL)
        out = r.stdout.decode('utf-8', 'replace')
        if expect == 'fire':
            hit = r.returncode == 1 and 'VIOLATION' in out
            ok &= hit
            rule = [l.strip()[:110] for l in out.splitlines() if l.strip().startswith('rule')][:1]
            msgs.append('%s %s %s' % (pr, 'reports' if hit else 'SILENT (exit %d)' % r.returncode, rule))
        else:
            if r.returncode != 0:
                ok = False
                msgs.append('%s ALARM exit=%d %s' % (pr, r.returncode, [l.strip()[:110] for l in out.splitlines() if l.strip().startswith(('rule', 'CHECK-BROKEN'))][:1]))
    shutil.rmtree(base, ignore_errors=True)
    return name, '%s: %s' % (expect, '; '.join(msgs) or 'all 20 checks silent'), ok


def main():
    sel = [m for m in M if len(sys.argv) < 2 or sys.argv[1] in m[0]]
    fail = 0
    with cf.ThreadPoolExecutor(max_workers=int(os.environ.get('JOBS', '6'))) as ex:
        for name, msg, ok in ex.map(run, sel):
            print('%-32s %s %s' % (name, 'ok ' if ok else 'BAD', msg))
            fail |= (not ok)
    print('re-run ./check on /repo to refresh evidence/ before committing')
    return fail


if __name__ == '__main__':
    sys.exit(main())
